//! Bit-exact emulation of the thirteen `core::arch::aarch64` items that /repo/src/simd/neon.rs uses (two vector types and
//! eleven intrinsics + `vld1q_u8` + `vgetq_lane_u64`), followed by a second group of commonly used neighbours (comparisons,
//! min/max, saturating add/sub, across-lane max/min, the shrn "movemask" idiom) so that a reworked neon.rs still builds here.  This host is x86-64 and has no aarch64 target installed, so neither
//! verifier can type-check `core::arch::aarch64`; the ONLY change made to the text of neon.rs is that its import line
//! `use core::arch::aarch64::*;` is redirected to this module (rule N1 of DESIGN.md 2.2).  Every function below is the
//! operation of the instruction named next to it as defined in the Arm Architecture Reference Manual (A64 Advanced SIMD),
//! on a register modelled as 16 byte lanes, lane i = bits 8i..8i+7.  TRUSTED: that these bodies are those semantics.
#![allow(non_camel_case_types, dead_code, clippy::missing_safety_doc)]

#[derive(Clone, Copy)]
pub struct uint8x16_t(pub [u8; 16]);
#[derive(Clone, Copy)]
pub struct uint64x2_t(pub [u64; 2]);

/// LD1 {Vt.16B}, [Xn]: sixteen consecutive bytes starting at `ptr`, element i from address ptr+i (no alignment requirement).
#[inline]
pub unsafe fn vld1q_u8(ptr: *const u8) -> uint8x16_t {
    uint8x16_t(core::ptr::read_unaligned(ptr as *const [u8; 16]))
}

/// DUP Vd.16B, Wn
#[inline]
pub unsafe fn vdupq_n_u8(value: u8) -> uint8x16_t {
    uint8x16_t([value; 16])
}

#[inline]
fn map2(a: uint8x16_t, b: uint8x16_t, f: fn(u8, u8) -> u8) -> uint8x16_t {
    let mut r = [0u8; 16];
    let mut i = 0;
    while i < 16 {
        r[i] = f(a.0[i], b.0[i]);
        i += 1;
    }
    uint8x16_t(r)
}

/// AND Vd.16B, Vn.16B, Vm.16B
#[inline]
pub unsafe fn vandq_u8(a: uint8x16_t, b: uint8x16_t) -> uint8x16_t {
    map2(a, b, |x, y| x & y)
}

/// ORR Vd.16B, Vn.16B, Vm.16B
#[inline]
pub unsafe fn vorrq_u8(a: uint8x16_t, b: uint8x16_t) -> uint8x16_t {
    map2(a, b, |x, y| x | y)
}

/// BIC Vd.16B, Vn.16B, Vm.16B: a AND NOT b
#[inline]
pub unsafe fn vbicq_u8(a: uint8x16_t, b: uint8x16_t) -> uint8x16_t {
    map2(a, b, |x, y| x & !y)
}

/// MVN Vd.16B, Vn.16B
#[inline]
pub unsafe fn vmvnq_u8(a: uint8x16_t) -> uint8x16_t {
    map2(a, a, |x, _| !x)
}

/// CMEQ Vd.16B, Vn.16B, Vm.16B: lane = 0xFF if equal, else 0
#[inline]
pub unsafe fn vceqq_u8(a: uint8x16_t, b: uint8x16_t) -> uint8x16_t {
    map2(a, b, |x, y| if x == y { 0xFF } else { 0 })
}

/// CMHS Vd.16B, Vm.16B, Vn.16B (operands swapped): lane = 0xFF if a <= b (unsigned), else 0
#[inline]
pub unsafe fn vcleq_u8(a: uint8x16_t, b: uint8x16_t) -> uint8x16_t {
    map2(a, b, |x, y| if x <= y { 0xFF } else { 0 })
}

/// TBL Vd.16B, {Vn.16B}, Vm.16B: lane i = t[idx[i]] if idx[i] < 16, else 0
#[inline]
pub unsafe fn vqtbl1q_u8(t: uint8x16_t, idx: uint8x16_t) -> uint8x16_t {
    let mut r = [0u8; 16];
    let mut i = 0;
    while i < 16 {
        let k = idx.0[i] as usize;
        r[i] = if k < 16 { t.0[k] } else { 0 };
        i += 1;
    }
    uint8x16_t(r)
}

/// USHR Vd.16B, Vn.16B, #n  (1 <= n <= 8; n = 8 gives 0).  core::arch takes `n` as a const generic that may be written in
/// argument position (`rustc_legacy_const_generics`), which is how neon.rs writes it.
#[inline]
pub unsafe fn vshrq_n_u8(a: uint8x16_t, n: i32) -> uint8x16_t {
    assert!(1 <= n && n <= 8);
    let mut r = [0u8; 16];
    let mut i = 0;
    while i < 16 {
        r[i] = if n == 8 { 0 } else { a.0[i] >> (n as u32) };
        i += 1;
    }
    uint8x16_t(r)
}

/// no instruction: the same 128 bits viewed as two 64-bit lanes; lane j = bits 64j..64j+63, i.e. byte lane 8j+k is bits 8k.. of it
#[inline]
pub unsafe fn vreinterpretq_u64_u8(a: uint8x16_t) -> uint64x2_t {
    let mut r = [0u64; 2];
    let mut i = 0;
    while i < 16 {
        r[i / 8] |= (a.0[i] as u64) << (8 * (i % 8));
        i += 1;
    }
    uint64x2_t(r)
}

/// UMOV Xd, Vn.D[LANE]
#[inline]
pub unsafe fn vgetq_lane_u64<const LANE: i32>(v: uint64x2_t) -> u64 {
    assert!(LANE == 0 || LANE == 1);
    v.0[LANE as usize]
}

// ---------------------------------------------------------------------------------------------- second group (not used by the pinned neon.rs)
#[derive(Clone, Copy)]
pub struct uint8x8_t(pub [u8; 8]);
#[derive(Clone, Copy)]
pub struct uint16x8_t(pub [u16; 8]);
#[derive(Clone, Copy)]
pub struct uint64x1_t(pub [u64; 1]);

/// CMHS: a >= b (unsigned)
#[inline]
pub unsafe fn vcgeq_u8(a: uint8x16_t, b: uint8x16_t) -> uint8x16_t { map2(a, b, |x, y| if x >= y { 0xFF } else { 0 }) }
/// CMHI: a > b (unsigned)
#[inline]
pub unsafe fn vcgtq_u8(a: uint8x16_t, b: uint8x16_t) -> uint8x16_t { map2(a, b, |x, y| if x > y { 0xFF } else { 0 }) }
/// CMHI with operands swapped: a < b (unsigned)
#[inline]
pub unsafe fn vcltq_u8(a: uint8x16_t, b: uint8x16_t) -> uint8x16_t { map2(a, b, |x, y| if x < y { 0xFF } else { 0 }) }
/// CMTST: (a AND b) != 0
#[inline]
pub unsafe fn vtstq_u8(a: uint8x16_t, b: uint8x16_t) -> uint8x16_t { map2(a, b, |x, y| if x & y != 0 { 0xFF } else { 0 }) }
/// EOR
#[inline]
pub unsafe fn veorq_u8(a: uint8x16_t, b: uint8x16_t) -> uint8x16_t { map2(a, b, |x, y| x ^ y) }
/// ORN: a OR NOT b
#[inline]
pub unsafe fn vornq_u8(a: uint8x16_t, b: uint8x16_t) -> uint8x16_t { map2(a, b, |x, y| x | !y) }
/// UMIN / UMAX
#[inline]
pub unsafe fn vminq_u8(a: uint8x16_t, b: uint8x16_t) -> uint8x16_t { map2(a, b, |x, y| if x < y { x } else { y }) }
#[inline]
pub unsafe fn vmaxq_u8(a: uint8x16_t, b: uint8x16_t) -> uint8x16_t { map2(a, b, |x, y| if x > y { x } else { y }) }
/// ADD / SUB (wrapping), UQADD / UQSUB (saturating)
#[inline]
pub unsafe fn vaddq_u8(a: uint8x16_t, b: uint8x16_t) -> uint8x16_t { map2(a, b, |x, y| x.wrapping_add(y)) }
#[inline]
pub unsafe fn vsubq_u8(a: uint8x16_t, b: uint8x16_t) -> uint8x16_t { map2(a, b, |x, y| x.wrapping_sub(y)) }
#[inline]
pub unsafe fn vqaddq_u8(a: uint8x16_t, b: uint8x16_t) -> uint8x16_t { map2(a, b, |x, y| x.saturating_add(y)) }
#[inline]
pub unsafe fn vqsubq_u8(a: uint8x16_t, b: uint8x16_t) -> uint8x16_t { map2(a, b, |x, y| x.saturating_sub(y)) }
/// BSL: (mask AND a) OR (NOT mask AND b)
#[inline]
pub unsafe fn vbslq_u8(mask: uint8x16_t, a: uint8x16_t, b: uint8x16_t) -> uint8x16_t {
    let mut r = [0u8; 16];
    let mut i = 0;
    while i < 16 { r[i] = (mask.0[i] & a.0[i]) | (!mask.0[i] & b.0[i]); i += 1; }
    uint8x16_t(r)
}
/// SHL Vd.16B, Vn.16B, #n (0 <= n <= 7)
#[inline]
pub unsafe fn vshlq_n_u8(a: uint8x16_t, n: i32) -> uint8x16_t {
    assert!(0 <= n && n <= 7);
    let mut r = [0u8; 16];
    let mut i = 0;
    while i < 16 { r[i] = a.0[i] << (n as u32); i += 1; }
    uint8x16_t(r)
}
/// UMAXV / UMINV: across-lane maximum / minimum
#[inline]
pub unsafe fn vmaxvq_u8(a: uint8x16_t) -> u8 { let mut m = 0u8; let mut i = 0; while i < 16 { if a.0[i] > m { m = a.0[i]; } i += 1; } m }
#[inline]
pub unsafe fn vminvq_u8(a: uint8x16_t) -> u8 { let mut m = 0xFFu8; let mut i = 0; while i < 16 { if a.0[i] < m { m = a.0[i]; } i += 1; } m }
/// UMOV Wd, Vn.B[LANE]
#[inline]
pub unsafe fn vgetq_lane_u8<const LANE: i32>(v: uint8x16_t) -> u8 { assert!(0 <= LANE && LANE < 16); v.0[LANE as usize] }
/// low / high halves
#[inline]
pub unsafe fn vget_low_u8(a: uint8x16_t) -> uint8x8_t { let mut r = [0u8; 8]; let mut i = 0; while i < 8 { r[i] = a.0[i]; i += 1; } uint8x8_t(r) }
#[inline]
pub unsafe fn vget_high_u8(a: uint8x16_t) -> uint8x8_t { let mut r = [0u8; 8]; let mut i = 0; while i < 8 { r[i] = a.0[8 + i]; i += 1; } uint8x8_t(r) }
/// the same 128 bits as eight 16-bit lanes: lane j = byte 2j (low) and byte 2j+1 (high)
#[inline]
pub unsafe fn vreinterpretq_u16_u8(a: uint8x16_t) -> uint16x8_t {
    let mut r = [0u16; 8];
    let mut i = 0;
    while i < 8 { r[i] = (a.0[2 * i] as u16) | ((a.0[2 * i + 1] as u16) << 8); i += 1; }
    uint16x8_t(r)
}
/// SHRN Vd.8B, Vn.8H, #n (1 <= n <= 8): each 16-bit lane shifted right by n, low 8 bits kept
#[inline]
pub unsafe fn vshrn_n_u16(a: uint16x8_t, n: i32) -> uint8x8_t {
    assert!(1 <= n && n <= 8);
    let mut r = [0u8; 8];
    let mut i = 0;
    while i < 8 { r[i] = (a.0[i] >> (n as u32)) as u8; i += 1; }
    uint8x8_t(r)
}
/// the same 64 bits as one 64-bit lane (byte lane k = bits 8k..)
#[inline]
pub unsafe fn vreinterpret_u64_u8(a: uint8x8_t) -> uint64x1_t {
    let mut r = 0u64;
    let mut i = 0;
    while i < 8 { r |= (a.0[i] as u64) << (8 * i); i += 1; }
    uint64x1_t([r])
}
/// UMOV Xd, Vn.D[0]
#[inline]
pub unsafe fn vget_lane_u64<const LANE: i32>(v: uint64x1_t) -> u64 { assert!(LANE == 0); v.0[0] }
/// ST1 {Vt.16B}, [Xn]
#[inline]
pub unsafe fn vst1q_u8(ptr: *mut u8, a: uint8x16_t) { core::ptr::write_unaligned(ptr as *mut [u8; 16], a.0) }
