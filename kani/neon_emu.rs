//! Bit-exact emulation of the thirteen `core::arch::aarch64` items that /repo/src/simd/neon.rs uses (two vector types and
//! eleven intrinsics + `vld1q_u8` + `vgetq_lane_u64`).  This host is x86-64 and has no aarch64 target installed, so neither
//! verifier can type-check `core::arch::aarch64`; the ONLY change made to the text of neon.rs is that its import line
//! `use core::arch::aarch64::*;` is redirected to this module (rule N1 of DESIGN.md 2.2).  Every function below is the
//! operation of the instruction named next to it as defined in the Arm Architecture Reference Manual (A64 Advanced SIMD),
//! on a register modelled as 16 byte lanes, lane i = bits 8i..8i+7.  TRUSTED: that these bodies are those semantics.
#![allow(non_camel_case_types, dead_code, clippy::missing_safety_doc)]

#[derive(Clone, Copy)]
pub struct uint8x16_t(pub [u8; 16]);
#[derive(Clone, Copy)]
pub struct uint64x2_t(pub [u64; 2]);

/// LD1 {Vt.16B}, [Xn]: sixteen consecutive bytes starting at `ptr`, element i from address ptr+i (no alignment requirement).
#[inline]
pub unsafe fn vld1q_u8(ptr: *const u8) -> uint8x16_t {
    uint8x16_t(core::ptr::read_unaligned(ptr as *const [u8; 16]))
}

/// DUP Vd.16B, Wn
#[inline]
pub unsafe fn vdupq_n_u8(value: u8) -> uint8x16_t {
    uint8x16_t([value; 16])
}

#[inline]
fn map2(a: uint8x16_t, b: uint8x16_t, f: fn(u8, u8) -> u8) -> uint8x16_t {
    let mut r = [0u8; 16];
    let mut i = 0;
    while i < 16 {
        r[i] = f(a.0[i], b.0[i]);
        i += 1;
    }
    uint8x16_t(r)
}

/// AND Vd.16B, Vn.16B, Vm.16B
#[inline]
pub unsafe fn vandq_u8(a: uint8x16_t, b: uint8x16_t) -> uint8x16_t {
    map2(a, b, |x, y| x & y)
}

/// ORR Vd.16B, Vn.16B, Vm.16B
#[inline]
pub unsafe fn vorrq_u8(a: uint8x16_t, b: uint8x16_t) -> uint8x16_t {
    map2(a, b, |x, y| x | y)
}

/// BIC Vd.16B, Vn.16B, Vm.16B: a AND NOT b
#[inline]
pub unsafe fn vbicq_u8(a: uint8x16_t, b: uint8x16_t) -> uint8x16_t {
    map2(a, b, |x, y| x & !y)
}

/// MVN Vd.16B, Vn.16B
#[inline]
pub unsafe fn vmvnq_u8(a: uint8x16_t) -> uint8x16_t {
    map2(a, a, |x, _| !x)
}

/// CMEQ Vd.16B, Vn.16B, Vm.16B: lane = 0xFF if equal, else 0
#[inline]
pub unsafe fn vceqq_u8(a: uint8x16_t, b: uint8x16_t) -> uint8x16_t {
    map2(a, b, |x, y| if x == y { 0xFF } else { 0 })
}

/// CMHS Vd.16B, Vm.16B, Vn.16B (operands swapped): lane = 0xFF if a <= b (unsigned), else 0
#[inline]
pub unsafe fn vcleq_u8(a: uint8x16_t, b: uint8x16_t) -> uint8x16_t {
    map2(a, b, |x, y| if x <= y { 0xFF } else { 0 })
}

/// TBL Vd.16B, {Vn.16B}, Vm.16B: lane i = t[idx[i]] if idx[i] < 16, else 0
#[inline]
pub unsafe fn vqtbl1q_u8(t: uint8x16_t, idx: uint8x16_t) -> uint8x16_t {
    let mut r = [0u8; 16];
    let mut i = 0;
    while i < 16 {
        let k = idx.0[i] as usize;
        r[i] = if k < 16 { t.0[k] } else { 0 };
        i += 1;
    }
    uint8x16_t(r)
}

/// USHR Vd.16B, Vn.16B, #n  (1 <= n <= 8; n = 8 gives 0).  core::arch takes `n` as a const generic that may be written in
/// argument position (`rustc_legacy_const_generics`), which is how neon.rs writes it.
#[inline]
pub unsafe fn vshrq_n_u8(a: uint8x16_t, n: i32) -> uint8x16_t {
    assert!(1 <= n && n <= 8);
    let mut r = [0u8; 16];
    let mut i = 0;
    while i < 16 {
        r[i] = if n == 8 { 0 } else { a.0[i] >> (n as u32) };
        i += 1;
    }
    uint8x16_t(r)
}

/// no instruction: the same 128 bits viewed as two 64-bit lanes; lane j = bits 64j..64j+63, i.e. byte lane 8j+k is bits 8k.. of it
#[inline]
pub unsafe fn vreinterpretq_u64_u8(a: uint8x16_t) -> uint64x2_t {
    let mut r = [0u64; 2];
    let mut i = 0;
    while i < 16 {
        r[i / 8] |= (a.0[i] as u64) << (8 * (i % 8));
        i += 1;
    }
    uint64x2_t(r)
}

/// UMOV Xd, Vn.D[LANE]
#[inline]
pub unsafe fn vgetq_lane_u64<const LANE: i32>(v: uint64x2_t) -> u64 {
    assert!(LANE == 0 || LANE == 1);
    v.0[LANE as usize]
}
