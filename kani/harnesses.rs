//! Kani leaf contracts for httparse (layer K of /verif/DESIGN.md).
//!
//! This file is copied to `src/kani_harnesses.rs` of a scratch copy of /repo on every run and attached with one appended
//! line (`#[cfg(kani)] mod kani_harnesses;`).  Each harness discharges one contract that the Verus layer *assumes*
//! (`assume_specification` / `external_body` in /verif/spec/*.rs); the pairing is recorded in /verif/contracts/leaves.json.
//! All harnesses are loop-free or constant-trip over their complete symbolic input domain, except the `Bytes` ones,
//! which bound the buffer length (stated in leaves.json and in the evidence).
#![allow(unused, non_snake_case)]
use crate::iter::Bytes;
use crate::*;
use core::mem::MaybeUninit;

// ---------------------------------------------------------------------------------------------- byte classes (C12, C05)
// written from the statement of C12, not from the tables
fn spec_is_uri(b: u8) -> bool { (0x21..=0x7e).contains(&b) || b >= 0x80 }
fn spec_is_hval(b: u8) -> bool { b == 9 || (0x20..=0x7e).contains(&b) || b >= 0x80 }
fn spec_is_tchar(b: u8) -> bool {
    b.is_ascii_alphanumeric() || matches!(b, b'!' | b'#' | b'$' | b'%' | b'&' | b'\'' | b'*' | b'+' | b'-' | b'.' | b'^' | b'_' | b'`' | b'|' | b'~')
}
fn first_not(block: &[u8], f: fn(u8) -> bool) -> usize {
    let mut i = 0;
    while i < block.len() {
        if !f(block[i]) { return i; }
        i += 1;
    }
    block.len()
}

#[kani::proof]
fn leaf_class_tables() {
    let b: u8 = kani::any();
    assert_eq!(crate::is_uri_token(b), spec_is_uri(b));
    assert_eq!(crate::is_header_value_token(b), spec_is_hval(b));
    assert_eq!(crate::is_header_name_token(b), spec_is_tchar(b));
    assert_eq!(crate::is_method_token(b), spec_is_tchar(b));
}

// ---------------------------------------------------------------------------------------------- word-at-a-time leaves
#[kani::proof]
#[kani::unwind(9)]
fn leaf_swar_uri_block() {
    let block: [u8; 8] = kani::any();
    let r = crate::simd::kani_access::uri8(block);
    assert_eq!(r, first_not(&block, spec_is_uri));
}
#[kani::proof]
#[kani::unwind(9)]
fn leaf_swar_hval_block() {
    let block: [u8; 8] = kani::any();
    let r = crate::simd::kani_access::hval8(block);
    // deliberately conservative: also stops at HTAB (the scanner loop re-examines that byte, proved in Verus)
    assert_eq!(r, first_not(&block, |b| b >= 0x20 && b != 0x7f));
}
#[kani::proof]
#[kani::unwind(9)]
fn leaf_swar_match_block_name() {
    let block: [u8; 8] = kani::any();
    let r = crate::simd::kani_access::match_block_name(block);
    assert_eq!(r, first_not(&block, spec_is_tchar));
}
#[kani::proof]
#[kani::unwind(9)]
fn leaf_swar_match_tail_name() {
    // call-site precondition (proved in Verus): fewer than 8 bytes remain
    let arr: [u8; 7] = kani::any();
    let len: usize = kani::any_where(|l: &usize| *l <= 7);
    let s = &arr[..len];
    let r = crate::simd::kani_access::match_tail_name(s);
    assert_eq!(r, first_not(s, spec_is_tchar));
}

// ---------------------------------------------------------------------------------------------- SSE4.2 / AVX2 block leaves
#[cfg(httparse_simd)]
mod simd_blocks {
    use super::*;
    use core::arch::x86_64::*;
    // Assumed semantics (Intel SDM) of the two intrinsics Kani cannot translate: unaligned 128/256-bit load, lane-wise unsigned max
    unsafe fn stub_lddqu128(p: *const __m128i) -> __m128i { core::ptr::read_unaligned(p) }
    unsafe fn stub_lddqu256(p: *const __m256i) -> __m256i { core::ptr::read_unaligned(p) }
    unsafe fn stub_max_epu8_128(a: __m128i, b: __m128i) -> __m128i {
        let x: [u8; 16] = core::mem::transmute(a);
        let y: [u8; 16] = core::mem::transmute(b);
        let mut r = [0u8; 16];
        let mut i = 0;
        while i < 16 { r[i] = if x[i] > y[i] { x[i] } else { y[i] }; i += 1; }
        core::mem::transmute(r)
    }
    unsafe fn stub_max_epu8_256(a: __m256i, b: __m256i) -> __m256i {
        let x: [u8; 32] = core::mem::transmute(a);
        let y: [u8; 32] = core::mem::transmute(b);
        let mut r = [0u8; 32];
        let mut i = 0;
        while i < 32 { r[i] = if x[i] > y[i] { x[i] } else { y[i] }; i += 1; }
        core::mem::transmute(r)
    }

    #[kani::proof]
    #[kani::unwind(17)]
    #[kani::stub(core::arch::x86_64::_mm_lddqu_si128, stub_lddqu128)]
    #[kani::stub(core::arch::x86_64::_mm_max_epu8, stub_max_epu8_128)]
    fn leaf_sse_uri_block() {
        // the slice may be longer than 16: only the first 16 bytes may be read and may matter
        let arr: [u8; 18] = kani::any();
        let len: usize = kani::any_where(|l: &usize| *l >= 16 && *l <= 18);
        let r = unsafe { crate::simd::kani_access::uri16(&arr[..len]) };
        assert_eq!(r, first_not(&arr[..16], spec_is_uri));
    }
    #[kani::proof]
    #[kani::unwind(17)]
    #[kani::stub(core::arch::x86_64::_mm_lddqu_si128, stub_lddqu128)]
    #[kani::stub(core::arch::x86_64::_mm_max_epu8, stub_max_epu8_128)]
    fn leaf_sse_hval_block() {
        let arr: [u8; 18] = kani::any();
        let len: usize = kani::any_where(|l: &usize| *l >= 16 && *l <= 18);
        let r = unsafe { crate::simd::kani_access::hval16(&arr[..len]) };
        assert_eq!(r, first_not(&arr[..16], spec_is_hval));
    }
    #[kani::proof]
    #[kani::unwind(33)]
    #[kani::stub(core::arch::x86_64::_mm256_lddqu_si256, stub_lddqu256)]
    #[kani::stub(core::arch::x86_64::_mm256_max_epu8, stub_max_epu8_256)]
    fn leaf_avx_uri_block() {
        let arr: [u8; 34] = kani::any();
        let len: usize = kani::any_where(|l: &usize| *l >= 32 && *l <= 34);
        let r = unsafe { crate::simd::kani_access::uri32(&arr[..len]) };
        assert_eq!(r, first_not(&arr[..32], spec_is_uri));
    }
    #[kani::proof]
    #[kani::unwind(33)]
    #[kani::stub(core::arch::x86_64::_mm256_lddqu_si256, stub_lddqu256)]
    #[kani::stub(core::arch::x86_64::_mm256_max_epu8, stub_max_epu8_256)]
    fn leaf_avx_hval_block() {
        let arr: [u8; 34] = kani::any();
        let len: usize = kani::any_where(|l: &usize| *l >= 32 && *l <= 34);
        let r = unsafe { crate::simd::kani_access::hval32(&arr[..len]) };
        assert_eq!(r, first_not(&arr[..32], spec_is_hval));
    }
}

// ---------------------------------------------------------------------------------------------- NEON block leaves
// The real text of src/simd/neon.rs (import line redirected to the emulation of the 13 aarch64 items it uses, rule N1).
// The block is its own 16-byte object: a read of a 17th byte is a Kani pointer-check failure.
#[kani::proof]
#[kani::unwind(17)]
fn leaf_neon_name_block() {
    let arr: [u8; 16] = kani::any();
    let r = unsafe { crate::simd::kani_access::neon_name16(arr.as_ptr()) };
    assert_eq!(r, first_not(&arr, spec_is_tchar));
}
#[kani::proof]
#[kani::unwind(17)]
fn leaf_neon_uri_block() {
    let arr: [u8; 16] = kani::any();
    let r = unsafe { crate::simd::kani_access::neon_uri16(arr.as_ptr()) };
    assert_eq!(r, first_not(&arr, spec_is_uri));
}
#[kani::proof]
#[kani::unwind(17)]
fn leaf_neon_hval_block() {
    let arr: [u8; 16] = kani::any();
    let r = unsafe { crate::simd::kani_access::neon_hval16(arr.as_ptr()) };
    assert_eq!(r, first_not(&arr, spec_is_hval));
}

// ---------------------------------------------------------------------------------------------- the cursor (src/iter.rs)
/// A buffer of ANY length up to MAXLEN with unconstrained contents: ONE heap object of symbolic size.  MAXLEN = 2^46 bytes
/// (64 TiB) stays inside CBMC's pointer-offset width under Kani's default 16 object bits; the cursor methods are loop-free,
/// so this is a complete check for every such length, not a bounded one.
const MAXLEN: usize = 1 << 46;
fn any_buf<'a>() -> &'a [u8] {
    let len: usize = kani::any_where(|l: &usize| *l <= MAXLEN);
    let layout = std::alloc::Layout::from_size_align(if len == 0 { 1 } else { len }, 1).unwrap();
    let p = unsafe { std::alloc::alloc(layout) };
    kani::assume(!p.is_null());
    unsafe { std::slice::from_raw_parts(p, len) }
}
/// any reachable `Bytes` state over such a buffer: (bytes, buf, start, cursor)
fn any_bytes<'a>() -> (Bytes<'a>, &'a [u8], usize, usize) {
    let buf = any_buf();
    let len = buf.len();
    let a: usize = kani::any_where(|x: &usize| *x <= len);
    let b: usize = kani::any_where(|x: &usize| *x <= len - a);
    let mut bytes = Bytes::new(buf);
    unsafe { bytes.advance(a); }
    bytes.commit();
    unsafe { bytes.advance(b); }
    (bytes, buf, a, a + b)
}
/// vacuity guard for any_bytes(): this harness MUST FAIL (the state it describes -- a huge buffer, cursor far inside, a
/// particular byte under the cursor -- has to be reachable); tools/kani_run.py inverts the verdict of *_mustfail harnesses
#[kani::proof]
fn leaf_bytes_state_reachable_mustfail() {
    let (bytes, buf, start, cur) = any_bytes();
    assert!(!(buf.len() > (1 << 45) && start > (1 << 20) && cur > (1 << 44) && bytes.peek() == Some(7)));
}
/// observers of the Verus model, read off the real struct: b_base, b_start, b_cur, |b_buf|
fn obs(bytes: &Bytes, buf: &[u8]) -> (usize, usize, usize, usize) {
    let base = buf.as_ptr() as usize;
    (base, bytes.start() as usize - base, bytes.as_ptr() as usize - base, bytes.end() as usize - base)
}

#[kani::proof]
fn leaf_bytes_new() {
    let buf = any_buf();
    let len = buf.len();
    let bytes = Bytes::new(buf);
    assert_eq!(obs(&bytes, buf), (buf.as_ptr() as usize, 0, 0, len));
}
#[kani::proof]
fn leaf_bytes_reads() {
    let (bytes, buf, start, cur) = any_bytes();
    assert_eq!(obs(&bytes, buf), (buf.as_ptr() as usize, start, cur, buf.len()));
    assert_eq!(bytes.pos(), cur - start);
    assert_eq!(bytes.len(), buf.len() - cur);
    assert_eq!(bytes.peek(), buf.get(cur).copied());
    let r: &[u8] = bytes.as_ref();
    assert_eq!(r.as_ptr(), buf.as_ptr().wrapping_add(cur));
    assert_eq!(r.len(), buf.len() - cur);
    // cursor_addr shim (R8): body is `b.as_ref().as_ptr() as usize`
    assert_eq!(bytes.as_ref().as_ptr() as usize, buf.as_ptr() as usize + cur);
    assert!((buf.as_ptr() as usize).checked_add(buf.len()).is_some());
    let n: usize = kani::any_where(|n: &usize| *n <= buf.len() - cur);
    assert_eq!(unsafe { bytes.peek_ahead(n) }, buf.get(cur + n).copied());
}
#[kani::proof]
fn leaf_bytes_peek_n() {
    let (bytes, buf, _start, cur) = any_bytes();
    let e: Option<[u8; 8]> = bytes.peek_n::<[u8; 8]>(8);
    if cur + 8 <= buf.len() { assert_eq!(&e.unwrap()[..], &buf[cur..cur + 8]); } else { assert!(e.is_none()); }
    let f: Option<[u8; 4]> = bytes.peek_n::<[u8; 4]>(4);
    if cur + 4 <= buf.len() { assert_eq!(&f.unwrap()[..], &buf[cur..cur + 4]); } else { assert!(f.is_none()); }
}
// the other array sizes a fast path may read with (axioms try_from_slice_arr{1,2,3,5,6,7,16,32} of spec/bytes.rs); peek_n is one
// generic, loop-free body: its independence of the buffer length is the leaf above, here a 40-byte buffer with any contents,
// any length <= 40 and any cursor
#[kani::proof]
#[kani::unwind(34)]
fn leaf_bytes_peek_n_sizes() {
    let arr: [u8; 40] = kani::any();
    let len: usize = kani::any_where(|l: &usize| *l <= 40);
    let buf = &arr[..len];
    let cur: usize = kani::any_where(|c: &usize| *c <= len);
    let mut bytes = Bytes::new(buf);
    unsafe { bytes.advance(cur); }
    macro_rules! pn { ($n:expr) => { let g: Option<[u8; $n]> = bytes.peek_n::<[u8; $n]>($n);
        if cur + $n <= len { let a = g.unwrap(); let mut i = 0; while i < $n { assert_eq!(a[i], buf[cur + i]); i += 1; } } else { assert!(g.is_none()); } } }
    pn!(1); pn!(2); pn!(3); pn!(5); pn!(6); pn!(7); pn!(16); pn!(32);
}
#[kani::proof]
fn leaf_bytes_advance() {
    let (mut bytes, buf, start, cur) = any_bytes();
    let n: usize = kani::any_where(|n: &usize| *n <= buf.len() - cur);
    if kani::any() {
        unsafe { bytes.advance(n); }
        assert_eq!(obs(&bytes, buf), (buf.as_ptr() as usize, start, cur + n, buf.len()));
    } else if kani::any() {
        unsafe { bytes.advance_and_commit(n); }
        assert_eq!(obs(&bytes, buf), (buf.as_ptr() as usize, cur + n, cur + n, buf.len()));
    } else if cur < buf.len() {
        unsafe { bytes.bump(); }
        assert_eq!(obs(&bytes, buf), (buf.as_ptr() as usize, start, cur + 1, buf.len()));
    }
}
#[kani::proof]
fn leaf_bytes_commit() {
    let (mut bytes, buf, _start, cur) = any_bytes();
    bytes.commit();
    assert_eq!(obs(&bytes, buf), (buf.as_ptr() as usize, cur, cur, buf.len()));
}
#[kani::proof]
fn leaf_bytes_slice() {
    let (mut bytes, buf, start, cur) = any_bytes();
    let s = bytes.slice();
    // C04: exactly the pointer range [base+start, base+cur)
    assert_eq!(s.as_ptr(), buf.as_ptr().wrapping_add(start));
    assert_eq!(s.len(), cur - start);
    assert_eq!(obs(&bytes, buf), (buf.as_ptr() as usize, cur, cur, buf.len()));
}
#[kani::proof]
fn leaf_bytes_slice_skip() {
    let (mut bytes, buf, start, cur) = any_bytes();
    let k: usize = kani::any_where(|k: &usize| *k <= cur - start);
    let s = unsafe { bytes.slice_skip(k) };
    // C04: exactly the pointer range [base+start, base+cur-k)
    assert_eq!(s.as_ptr(), buf.as_ptr().wrapping_add(start));
    assert_eq!(s.len(), cur - k - start);
    assert_eq!(obs(&bytes, buf), (buf.as_ptr() as usize, cur, cur, buf.len()));
}
#[kani::proof]
fn leaf_bytes_next() {
    let (mut bytes, buf, start, cur) = any_bytes();
    let r = bytes.next();
    assert_eq!(r, buf.get(cur).copied());
    assert_eq!(obs(&bytes, buf), (buf.as_ptr() as usize, start, if cur < buf.len() { cur + 1 } else { cur }, buf.len()));
}

// ---------------------------------------------------------------------------------------------- shims and constants (R2, R4)
#[kani::proof]
fn leaf_u64_from_ne_bytes_is_le() {
    // target assumption: little-endian (x86-64); the Verus contract is `== le64(a@)`
    let a: [u8; 8] = kani::any();
    assert_eq!(u64::from_ne_bytes(a), u64::from_le_bytes(a));
    let mut v: u64 = 0;
    let mut i = 8;
    while i > 0 { i -= 1; v = (v << 8) | a[i] as u64; }
    assert_eq!(u64::from_ne_bytes(a), v);
}
#[kani::proof]
fn leaf_block_size() {
    assert_eq!(core::mem::size_of::<usize>(), 8);
}

// ---------------------------------------------------------------------------------------------- derive(Default) (D2)
#[kani::proof]
fn leaf_default_configs() {
    let c = ParserConfig::default();
    assert!(!c.allow_spaces_after_header_name_in_responses && !c.allow_obsolete_multiline_headers_in_responses
        && !c.allow_multiple_spaces_in_request_line_delimiters && !c.allow_multiple_spaces_in_response_status_delimiters
        && !c.allow_space_before_first_header_name && !c.ignore_invalid_headers_in_responses && !c.ignore_invalid_headers_in_requests);
    let h = HeaderParserConfig::default();
    assert!(!h.allow_spaces_after_header_name && !h.allow_obsolete_multiline_headers && !h.allow_space_before_first_header_name && !h.ignore_invalid_headers);
}

// ---------------------------------------------------------------------------------------------- runtime feature cache (C13)
// detection itself (cpuid) is outside Kani's reach: any id in {1,2,3} may be detected
static mut DETECTED: u8 = 0;
fn stub_detect() -> u8 { let d = kani::any_where(|d: &u8| *d >= 1 && *d <= 3); unsafe { DETECTED = d; } d }
// every store into the cache is recorded (the thread argument of C13 rests on "every store writes the detected id": with that, the
// cell only ever holds 0 or d under ANY interleaving of calls, so every load sees 0 or d and every call returns d)
static mut STORED: [u8; 4] = [0; 4];
static mut N_STORED: usize = 0;
fn stub_store(cell: &core::sync::atomic::AtomicU8, val: u8, order: core::sync::atomic::Ordering) {
    unsafe { if N_STORED < 4 { STORED[N_STORED] = val; } N_STORED += 1; }
    let _ = cell.fetch_and(0, order);
    let _ = cell.fetch_or(val, order);
}
fn stub_swap(cell: &core::sync::atomic::AtomicU8, val: u8, order: core::sync::atomic::Ordering) -> u8 {
    unsafe { if N_STORED < 4 { STORED[N_STORED] = val; } N_STORED += 1; }
    let old = cell.fetch_and(0, order);
    let _ = cell.fetch_or(val, order);
    old
}
#[cfg(httparse_simd)]
#[kani::proof]
#[kani::stub(crate::simd::runtime::detect_runtime_feature, stub_detect)]
#[kani::stub(core::sync::atomic::Atomic::<u8>::store, stub_store)]
#[kani::stub(core::sync::atomic::Atomic::<u8>::swap, stub_swap)]
fn leaf_runtime_feature_cache() {
    // sequential contract: from a cache holding 0 or a detected id, the call returns the cached value, or detects d, returns d and
    // stores d -- and nothing else is ever stored, not even temporarily
    use core::sync::atomic::Ordering;
    let cached: u8 = kani::any_where(|c: &u8| *c <= 3);
    crate::simd::kani_access::runtime_feature_cell().store(cached, Ordering::Relaxed);
    unsafe { N_STORED = 0; DETECTED = 0; }
    let r = crate::simd::kani_access::get_runtime_feature();
    let after = crate::simd::kani_access::runtime_feature_cell().load(Ordering::Relaxed);
    assert!(r >= 1 && r <= 3 || cached != 0);
    if cached != 0 { assert_eq!(r, cached); }
    assert_eq!(after, r);
    unsafe {
        assert!(N_STORED <= 4);
        let mut i = 0;
        while i < N_STORED { assert_eq!(STORED[i], r); assert!(cached != 0 || STORED[i] == DETECTED); i += 1; }
        if cached == 0 { assert_eq!(r, DETECTED); }
    }
}

// ---------------------------------------------------------------------------------------------- cast wrappers (C16, C17, C18)
// `Request::parse_with_config` / `Response::parse_with_config`: take, two pointer casts, restore.  Checked loop-free against a
// nondeterministic MODEL of the callee (clauses = the Verus-proved contract of parse_with_config_and_uninit_headers):
// it may write any number k <= len of leading slots, returns any status, and on Complete leaves `self.headers` = that prefix.
static SENTINEL: &str = "sentinel";
// what the model callee observed: number of calls, the buffer and config it was given, the result it returned
static mut M_CALLS: usize = 0;
static mut M_BUF: (usize, usize) = (0, 0);
static mut M_CFG: usize = 0;
static mut M_ARR: (usize, usize) = (0, 0);
static mut M_HDR: (usize, usize) = (0, 0);
static mut M_FLAGS: u8 = 0xff;
fn flags(c: &ParserConfig) -> u8 {
    (c.allow_spaces_after_header_name_in_responses as u8) | (c.allow_obsolete_multiline_headers_in_responses as u8) << 1 | (c.allow_multiple_spaces_in_request_line_delimiters as u8) << 2
        | (c.allow_multiple_spaces_in_response_status_delimiters as u8) << 3 | (c.allow_space_before_first_header_name as u8) << 4 | (c.ignore_invalid_headers_in_responses as u8) << 5 | (c.ignore_invalid_headers_in_requests as u8) << 6
}
static mut M_RES: u8 = 0;
static mut M_N: usize = 0;
// the start-line fields as the callee found them and as it left them (frame: the wrapper itself must not touch them, neither before
// delegating -- the callee's contract is stated over the fields it finds -- nor afterwards)
static F1: &str = "field-one";
static F2: &str = "field-two";
static mut M_IN: (u8, u8, u16, u16) = (0, 0, 0, 0);
static mut M_OUT: (u8, u8, u16, u16) = (0, 0, 0, 0);
fn scode(s: Option<&str>) -> u8 { match s { None => 0, Some(x) => if x.as_ptr() == F1.as_ptr() { 1 } else if x.as_ptr() == F2.as_ptr() { 2 } else { 3 } } }
fn sval<'x>(c: u8) -> Option<&'x str> { match c { 0 => None, 1 => Some(F1), _ => Some(F2) } }
fn vcode(v: Option<u8>) -> u16 { match v { None => 0x100, Some(x) => x as u16 } }
fn ccode(v: Option<u16>) -> u16 { match v { None => 0xffff, Some(x) => x } }
fn model_result() -> Result<usize> {
    let which: u8 = kani::any_where(|w: &u8| *w <= 8);
    let n: usize = kani::any();
    unsafe { M_RES = which; M_N = n; }
    decode(which, n)
}
fn decode(which: u8, n: usize) -> Result<usize> {
    match which {
        0 => Ok(Status::Complete(n)),
        1 => Ok(Status::Partial),
        2 => Err(Error::HeaderName), 3 => Err(Error::HeaderValue), 4 => Err(Error::NewLine), 5 => Err(Error::Status),
        6 => Err(Error::Token), 7 => Err(Error::TooManyHeaders), _ => Err(Error::Version),
    }
}
impl<'h, 'b> Request<'h, 'b> {
    fn kani_model_uninit(&mut self, buf: &'b [u8], config: &ParserConfig, headers: &'h mut [MaybeUninit<Header<'b>>]) -> Result<usize> {
        unsafe { M_CALLS += 1; M_BUF = (buf.as_ptr() as usize, buf.len()); M_CFG = config as *const ParserConfig as usize; M_ARR = (headers.as_ptr() as usize, headers.len()); M_FLAGS = flags(config); }
        unsafe { M_IN = (scode(self.method), scode(self.path), vcode(self.version), 0); }
        let (m, p): (u8, u8) = (kani::any_where(|c: &u8| *c <= 2), kani::any_where(|c: &u8| *c <= 2));
        let v: Option<u8> = if kani::any() { Some(kani::any()) } else { None };
        self.method = sval(m); self.path = sval(p); self.version = v;
        unsafe { M_OUT = (m, p, vcode(v), 0); }
        let k: usize = kani::any_where(|k: &usize| *k <= headers.len());
        let mut i = 0;
        while i < k { headers[i] = MaybeUninit::new(Header { name: "written", value: b"" }); i += 1; }
        let r = model_result();
        if let Ok(Status::Complete(_)) = r {
            let (init, _) = headers.split_at_mut(k);
            unsafe { M_HDR = (init.as_ptr() as usize, init.len()); }
            self.headers = unsafe { &mut *(init as *mut [MaybeUninit<Header<'b>>] as *mut [Header<'b>]) };
        }
        r
    }
}
impl<'h, 'b> Response<'h, 'b> {
    fn kani_model_uninit(&mut self, buf: &'b [u8], config: &ParserConfig, headers: &'h mut [MaybeUninit<Header<'b>>]) -> Result<usize> {
        unsafe { M_CALLS += 1; M_BUF = (buf.as_ptr() as usize, buf.len()); M_CFG = config as *const ParserConfig as usize; M_ARR = (headers.as_ptr() as usize, headers.len()); M_FLAGS = flags(config); }
        unsafe { M_IN = (scode(self.reason), 0, vcode(self.version), ccode(self.code)); }
        let m: u8 = kani::any_where(|c: &u8| *c <= 2);
        let v: Option<u8> = if kani::any() { Some(kani::any()) } else { None };
        let c: Option<u16> = if kani::any() { Some(kani::any_where(|c: &u16| *c < 1000)) } else { None };
        self.reason = sval(m); self.version = v; self.code = c;
        unsafe { M_OUT = (m, 0, vcode(v), ccode(c)); }
        let k: usize = kani::any_where(|k: &usize| *k <= headers.len());
        let mut i = 0;
        while i < k { headers[i] = MaybeUninit::new(Header { name: "written", value: b"" }); i += 1; }
        let r = model_result();
        if let Ok(Status::Complete(_)) = r {
            let (init, _) = headers.split_at_mut(k);
            unsafe { M_HDR = (init.as_ptr() as usize, init.len()); }
            self.headers = unsafe { &mut *(init as *mut [MaybeUninit<Header<'b>>] as *mut [Header<'b>]) };
        }
        r
    }
}
const CAP: usize = 3;
const WB: usize = 20;
#[kani::proof]
#[kani::unwind(5)]
#[kani::stub(Request::parse_with_config_and_uninit_headers, Request::kani_model_uninit)]
fn leaf_request_wrapper_restores() {
    let mut arr = [Header { name: SENTINEL, value: b"" }; CAP];
    let cap: usize = kani::any_where(|c: &usize| *c <= CAP);
    let p0 = arr.as_ptr() as usize;
    let bufa: [u8; WB] = kani::any();
    let blen: usize = kani::any_where(|l: &usize| *l <= WB);
    let buf = &bufa[..blen];
    let cfg = ParserConfig::default();
    let mut req = Request::new(&mut arr[..cap]);
    // a value that has been through earlier calls: any field state
    let (m0, p0f): (u8, u8) = (kani::any_where(|c: &u8| *c <= 2), kani::any_where(|c: &u8| *c <= 2));
    let v0: Option<u8> = if kani::any() { Some(kani::any()) } else { None };
    req.method = sval(m0); req.path = sval(p0f); req.version = v0;
    let r = req.parse_with_config(buf, &cfg);
    unsafe {
        assert!(M_IN == (m0, p0f, vcode(v0), 0));                                             // untouched before delegating
        assert!((scode(req.method), scode(req.path), vcode(req.version), 0) == M_OUT);        // untouched afterwards
    }
    // pure pass-through: the callee is called exactly once, with this buffer and this config, and its result is returned
    unsafe {
        assert!(M_CALLS == 1);
        assert!(M_BUF == (buf.as_ptr() as usize, buf.len()));
        assert!(M_CFG == &cfg as *const ParserConfig as usize);
        assert!(M_ARR.1 == cap && (M_ARR.0 == p0 || cap == 0));          // the callee is given the caller's WHOLE array
        assert!(r == decode(M_RES, M_N));
    }
    match r {
        Ok(Status::Complete(_)) => { assert!(req.headers.len() <= cap); assert!(req.headers.as_ptr() as usize == p0 || req.headers.len() == 0); }
        _ => { assert_eq!(req.headers.len(), cap); assert!(req.headers.as_ptr() as usize == p0 || cap == 0); }
    }
}
#[kani::proof]
#[kani::unwind(5)]
#[kani::stub(Response::parse_with_config_and_uninit_headers, Response::kani_model_uninit)]
fn leaf_response_wrapper_restores() {
    let mut arr = [Header { name: SENTINEL, value: b"" }; CAP];
    let cap: usize = kani::any_where(|c: &usize| *c <= CAP);
    let p0 = arr.as_ptr() as usize;
    let bufa: [u8; WB] = kani::any();
    let blen: usize = kani::any_where(|l: &usize| *l <= WB);
    let buf = &bufa[..blen];
    let cfg = ParserConfig::default();
    let mut resp = Response::new(&mut arr[..cap]);
    let m0: u8 = kani::any_where(|c: &u8| *c <= 2);
    let v0: Option<u8> = if kani::any() { Some(kani::any()) } else { None };
    let c0: Option<u16> = if kani::any() { Some(kani::any_where(|c: &u16| *c < 1000)) } else { None };
    resp.reason = sval(m0); resp.version = v0; resp.code = c0;
    let r = resp.parse_with_config(buf, &cfg);
    unsafe {
        assert!(M_IN == (m0, 0, vcode(v0), ccode(c0)));
        assert!((scode(resp.reason), 0, vcode(resp.version), ccode(resp.code)) == M_OUT);
    }
    unsafe {
        assert!(M_CALLS == 1);
        assert!(M_BUF == (buf.as_ptr() as usize, buf.len()));
        assert!(M_CFG == &cfg as *const ParserConfig as usize);
        assert!(M_ARR.1 == cap && (M_ARR.0 == p0 || cap == 0));          // the callee is given the caller's WHOLE array
        assert!(r == decode(M_RES, M_N));
    }
    match r {
        Ok(Status::Complete(_)) => { assert!(resp.headers.len() <= cap); assert!(resp.headers.as_ptr() as usize == p0 || resp.headers.len() == 0); }
        _ => { assert_eq!(resp.headers.len(), cap); assert!(resp.headers.as_ptr() as usize == p0 || cap == 0); }
    }
}

// ---------------------------------------------------------------------------------------------- the public forwarders (C16, C18, C15)
// Request::parse_with_uninit_headers, ParserConfig::parse_request[_with_uninit_headers], ParserConfig::parse_response[_with_uninit_headers]
// (and through them Request::parse / Response::parse): each must hand its arguments to the inner entry point unchanged (the whole
// array, this buffer, this configuration -- the default one where none is given), return its result, and leave the value as the
// inner entry point left it.  The Verus contracts of the forwarders cover status and fields; what `headers` is afterwards is here.
fn any_cfg() -> ParserConfig {
    let mut c = ParserConfig::default();
    c.allow_spaces_after_header_name_in_responses = kani::any(); c.allow_obsolete_multiline_headers_in_responses = kani::any();
    c.allow_multiple_spaces_in_request_line_delimiters = kani::any(); c.allow_multiple_spaces_in_response_status_delimiters = kani::any();
    c.allow_space_before_first_header_name = kani::any(); c.ignore_invalid_headers_in_responses = kani::any(); c.ignore_invalid_headers_in_requests = kani::any();
    c
}
#[kani::proof]
#[kani::unwind(5)]
#[kani::stub(Request::parse_with_config_and_uninit_headers, Request::kani_model_uninit)]
fn leaf_request_forwarders_pass_through() {
    let bufa: [u8; WB] = kani::any();
    let blen: usize = kani::any_where(|l: &usize| *l <= WB);
    let buf = &bufa[..blen];
    let mut prior = [Header { name: SENTINEL, value: b"" }; 2];
    let pl: usize = kani::any_where(|c: &usize| *c <= 2);
    let pp = prior.as_ptr() as usize;
    let mut scratch: [MaybeUninit<Header>; CAP] = [MaybeUninit::uninit(), MaybeUninit::uninit(), MaybeUninit::uninit()];
    let cap: usize = kani::any_where(|c: &usize| *c <= CAP);
    let sp = scratch.as_ptr() as usize;
    let cfg = any_cfg();
    let mut req = Request::new(&mut prior[..pl]);
    let which: u8 = kani::any_where(|w: &u8| *w <= 2);
    let (r, want_flags, want_arr) = match which {
        0 => (req.parse_with_uninit_headers(buf, &mut scratch[..cap]), 0u8, (sp, cap)),
        1 => (cfg.parse_request_with_uninit_headers(&mut req, buf, &mut scratch[..cap]), flags(&cfg), (sp, cap)),
        _ => (cfg.parse_request(&mut req, buf), flags(&cfg), (pp, pl)),
    };
    unsafe {
        assert!(M_CALLS == 1 && M_BUF == (buf.as_ptr() as usize, buf.len()) && M_FLAGS == want_flags);
        assert!(M_ARR.1 == want_arr.1 && (M_ARR.0 == want_arr.0 || want_arr.1 == 0));
        assert!(r == decode(M_RES, M_N));
        assert!((scode(req.method), scode(req.path), vcode(req.version), 0) == M_OUT);
        match r {
            Ok(Status::Complete(_)) => assert!(req.headers.len() == M_HDR.1 && (req.headers.as_ptr() as usize == M_HDR.0 || M_HDR.1 == 0)),
            _ => assert!(req.headers.len() == pl && (req.headers.as_ptr() as usize == pp || pl == 0)),
        }
    }
}
#[kani::proof]
#[kani::unwind(5)]
#[kani::stub(Response::parse_with_config_and_uninit_headers, Response::kani_model_uninit)]
fn leaf_response_forwarders_pass_through() {
    let bufa: [u8; WB] = kani::any();
    let blen: usize = kani::any_where(|l: &usize| *l <= WB);
    let buf = &bufa[..blen];
    let mut prior = [Header { name: SENTINEL, value: b"" }; 2];
    let pl: usize = kani::any_where(|c: &usize| *c <= 2);
    let pp = prior.as_ptr() as usize;
    let mut scratch: [MaybeUninit<Header>; CAP] = [MaybeUninit::uninit(), MaybeUninit::uninit(), MaybeUninit::uninit()];
    let cap: usize = kani::any_where(|c: &usize| *c <= CAP);
    let sp = scratch.as_ptr() as usize;
    let cfg = any_cfg();
    let mut resp = Response::new(&mut prior[..pl]);
    let (r, want_arr) = if kani::any() { (cfg.parse_response_with_uninit_headers(&mut resp, buf, &mut scratch[..cap]), (sp, cap)) }
                        else { (cfg.parse_response(&mut resp, buf), (pp, pl)) };
    unsafe {
        assert!(M_CALLS == 1 && M_BUF == (buf.as_ptr() as usize, buf.len()) && M_FLAGS == flags(&cfg));
        assert!(M_ARR.1 == want_arr.1 && (M_ARR.0 == want_arr.0 || want_arr.1 == 0));
        assert!(r == decode(M_RES, M_N));
        assert!((scode(resp.reason), 0, vcode(resp.version), ccode(resp.code)) == M_OUT);
        match r {
            Ok(Status::Complete(_)) => assert!(resp.headers.len() == M_HDR.1 && (resp.headers.as_ptr() as usize == M_HDR.0 || M_HDR.1 == 0)),
            _ => assert!(resp.headers.len() == pl && (resp.headers.as_ptr() as usize == pp || pl == 0)),
        }
    }
}

// ---------------------------------------------------------------------------------------------- inner entry points: what happens to `self.headers` (C04, C16, C17, C18)
// `Request/Response::parse_with_config_and_uninit_headers` are verified in Verus for status and start-line fields, but the header
// routine's Drop guard makes Verus forget what `headers` is after the call, so "on Complete `self.headers` IS the slice the header
// routine left (same address, same length), otherwise it is untouched" cannot be stated there.  It is checked here: the REAL entry
// function on a concrete start line, with the header routine replaced by a model that leaves any prefix length k and any outcome.
static mut H_K: usize = 0;
static mut H_PTR: usize = 0;
static mut H_CAP: usize = 0;
fn model_hdr_iter<'a>(headers: &mut &mut [MaybeUninit<Header<'a>>], bytes: &mut Bytes<'a>, _config: &HeaderParserConfig) -> Result<usize> {
    unsafe { M_CALLS += 1; H_PTR = headers.as_ptr() as usize; H_CAP = headers.len(); }
    let k: usize = kani::any_where(|k: &usize| *k <= headers.len());
    let mut i = 0;
    while i < k { headers[i] = MaybeUninit::new(Header { name: "written", value: b"" }); i += 1; }
    // what the Drop guard of the real routine does on every exit: shrink to the k written slots
    let taken = core::mem::take(headers);
    let (init, _) = taken.split_at_mut(k);
    *headers = init;
    unsafe { H_K = k; }
    let r = model_result();
    // the real routine consumes at most what is left of the buffer
    if let Ok(Status::Complete(n)) = r { kani::assume(n <= bytes.len()); }
    r
}
// the request target is taken by a model as well (the real parse_uri is verified in Verus; its UTF-8 check through std is what makes
// CBMC slow here): it consumes "/p " and returns the two bytes before the space
fn model_uri<'a>(bytes: &mut Bytes<'a>) -> Result<&'a str> {
    unsafe { bytes.advance(3); }
    let s = unsafe { bytes.slice_skip(1) };
    Ok(Status::Complete(unsafe { core::str::from_utf8_unchecked(s) }))
}
#[kani::proof]
#[kani::unwind(24)]
#[kani::stub(crate::parse_headers_iter_uninit, model_hdr_iter)]
#[kani::stub(crate::parse_uri, model_uri)]
fn leaf_request_entry_installs_headers() {
    let buf: &'static [u8] = b"GET /p HTTP/1.1\r\nrest";
    let mut prior = [Header { name: SENTINEL, value: b"" }; 2];
    let pl: usize = kani::any_where(|c: &usize| *c <= 2);
    let pp = prior.as_ptr() as usize;
    let mut scratch: [MaybeUninit<Header>; CAP] = [MaybeUninit::uninit(), MaybeUninit::uninit(), MaybeUninit::uninit()];
    let cap: usize = kani::any_where(|c: &usize| *c <= CAP);
    let sp = scratch.as_ptr() as usize;
    let cfg = ParserConfig::default();
    let mut req = Request::new(&mut prior[..pl]);
    let r = req.parse_with_config_and_uninit_headers(buf, &cfg, &mut scratch[..cap]);
    unsafe {
        assert!(M_CALLS == 1 && H_CAP == cap && (H_PTR == sp || cap == 0));      // the header routine gets the caller's whole scratch array
        match decode(M_RES, M_N) {
            Ok(Status::Complete(n)) => {
                assert!(r == Ok(Status::Complete(17usize.wrapping_add(n))));              // start-line length + what the routine consumed
                assert!(req.headers.len() == H_K && (req.headers.as_ptr() as usize == sp || H_K == 0));
            }
            other => { assert!(r == other); assert!(req.headers.len() == pl && (req.headers.as_ptr() as usize == pp || pl == 0)); }
        }
    }
}
#[kani::proof]
#[kani::unwind(24)]
#[kani::stub(crate::parse_headers_iter_uninit, model_hdr_iter)]
fn leaf_response_entry_installs_headers() {
    let buf: &'static [u8] = b"HTTP/1.1 200 OK\r\nrest";
    let mut prior = [Header { name: SENTINEL, value: b"" }; 2];
    let pl: usize = kani::any_where(|c: &usize| *c <= 2);
    let pp = prior.as_ptr() as usize;
    let mut scratch: [MaybeUninit<Header>; CAP] = [MaybeUninit::uninit(), MaybeUninit::uninit(), MaybeUninit::uninit()];
    let cap: usize = kani::any_where(|c: &usize| *c <= CAP);
    let sp = scratch.as_ptr() as usize;
    let cfg = ParserConfig::default();
    let mut resp = Response::new(&mut prior[..pl]);
    let r = resp.parse_with_config_and_uninit_headers(buf, &cfg, &mut scratch[..cap]);
    unsafe {
        assert!(M_CALLS == 1 && H_CAP == cap && (H_PTR == sp || cap == 0));
        match decode(M_RES, M_N) {
            Ok(Status::Complete(n)) => {
                assert!(r == Ok(Status::Complete(17usize.wrapping_add(n))));
                assert!(resp.headers.len() == H_K && (resp.headers.as_ptr() as usize == sp || H_K == 0));
            }
            other => { assert!(r == other); assert!(resp.headers.len() == pl && (resp.headers.as_ptr() as usize == pp || pl == 0)); }
        }
    }
}

// `parse_headers` / `parse_headers_iter`: the returned slice is exactly what the header routine left of the caller's array, the offset
// is the routine's, and the routine is given the whole array and the default options (same model of the routine as above)
static mut H_CFG: (bool, bool, bool, bool) = (true, true, true, true);
fn model_hdr_iter_cfg<'a>(headers: &mut &mut [MaybeUninit<Header<'a>>], bytes: &mut Bytes<'a>, config: &HeaderParserConfig) -> Result<usize> {
    unsafe { H_CFG = (config.allow_spaces_after_header_name, config.allow_obsolete_multiline_headers, config.allow_space_before_first_header_name, config.ignore_invalid_headers); }
    model_hdr_iter(headers, bytes, config)
}
#[kani::proof]
#[kani::unwind(6)]
#[kani::stub(crate::parse_headers_iter_uninit, model_hdr_iter_cfg)]
fn leaf_parse_headers_returns_routines_slice() {
    let bufa: [u8; 8] = kani::any();
    let blen: usize = kani::any_where(|l: &usize| *l <= 8);
    let buf = &bufa[..blen];
    let mut arr = [Header { name: SENTINEL, value: b"" }; CAP];
    let cap: usize = kani::any_where(|c: &usize| *c <= CAP);
    let ap = arr.as_ptr() as usize;
    let r = parse_headers(buf, &mut arr[..cap]);
    unsafe {
        assert!(M_CALLS == 1 && H_CAP == cap && (H_PTR == ap || cap == 0));
        assert!(H_CFG == (false, false, false, false));
        match decode(M_RES, M_N) {
            Ok(Status::Complete(n)) => match r {
                Ok(Status::Complete((m, hs))) => { assert!(m == n); assert!(hs.len() == H_K && (hs.as_ptr() as usize == ap || H_K == 0)); }
                _ => assert!(false),
            },
            Ok(Status::Partial) => assert!(matches!(r, Ok(Status::Partial))),
            Err(e) => assert!(r == Err(e)),
        }
    }
}

// ---------------------------------------------------------------------------------------------- slice-cast helpers (C01, C17)
#[kani::proof]
fn leaf_slice_casts_are_identity() {
    let mut arr = [Header { name: SENTINEL, value: b"" }; CAP];
    let cap: usize = kani::any_where(|c: &usize| *c <= CAP);
    let p0 = arr.as_ptr() as usize;
    let mut s: &mut [Header] = &mut arr[..cap];
    {
        let u: &mut &mut [MaybeUninit<Header>] = unsafe { deinit_slice_mut(&mut s) };
        assert_eq!(u.len(), cap);
        assert!(u.as_ptr() as usize == p0 || cap == 0);
        let back: &mut [Header] = unsafe { assume_init_slice(&mut **u) };
        assert_eq!(back.len(), cap);
        assert!(back.as_ptr() as usize == p0 || cap == 0);
        if cap > 0 { assert!(back[0].name.as_ptr() == SENTINEL.as_ptr()); }
    }
}

// ---------------------------------------------------------------------------------------------- std shims (bounded)
// R9 shim `slice_rposition` = `s.iter().rposition(p)`: last index whose byte satisfies p, with the trimming predicate of the
// header routine; bounded: slices of at most 6 bytes
// (the bound RPOS_N and the unwinding limit RPOS_N + 2 are rewritten by tools/kani_run.py: 6 in the quick tier, 24 in the thorough tier)
const RPOS_N: usize = 6;
#[kani::proof]
#[kani::unwind(8)]
fn leaf_rposition_shim() {
    let arr: [u8; RPOS_N] = kani::any();
    let len: usize = kani::any_where(|l: &usize| *l <= RPOS_N);
    let s = &arr[..len];
    let p = |b: &u8| *b != b' ' && *b != b'\t' && *b != b'\r' && *b != b'\n';
    let r = s.iter().rposition(p);
    match r {
        Some(i) => {
            assert!(i < len && p(&s[i]));
            let mut j = i + 1;
            while j < len { assert!(!p(&s[j])); j += 1; }
        }
        None => { let mut j = 0; while j < len { assert!(!p(&s[j])); j += 1; } }
    }
}
// core::str::from_utf8 decides exactly Unicode table 3-7 (the definition of valid_utf8 in spec/shims.rs, transcribed below) and
// returns exactly the given bytes; BOUNDED: every byte sequence of length <= 4 (all one-scalar encodings and their truncations)
fn t37_cont(b: u8) -> bool { (0x80..=0xBF).contains(&b) }
fn t37_len(s: &[u8], i: usize) -> usize {
    let n = s.len();
    let b0 = s[i];
    if b0 < 0x80 { 1 }
    else if (0xC2..=0xDF).contains(&b0) && i + 1 < n && t37_cont(s[i + 1]) { 2 }
    else if b0 == 0xE0 && i + 2 < n && (0xA0..=0xBF).contains(&s[i + 1]) && t37_cont(s[i + 2]) { 3 }
    else if ((0xE1..=0xEC).contains(&b0) || (0xEE..=0xEF).contains(&b0)) && i + 2 < n && t37_cont(s[i + 1]) && t37_cont(s[i + 2]) { 3 }
    else if b0 == 0xED && i + 2 < n && (0x80..=0x9F).contains(&s[i + 1]) && t37_cont(s[i + 2]) { 3 }
    else if b0 == 0xF0 && i + 3 < n && (0x90..=0xBF).contains(&s[i + 1]) && t37_cont(s[i + 2]) && t37_cont(s[i + 3]) { 4 }
    else if (0xF1..=0xF3).contains(&b0) && i + 3 < n && t37_cont(s[i + 1]) && t37_cont(s[i + 2]) && t37_cont(s[i + 3]) { 4 }
    else if b0 == 0xF4 && i + 3 < n && (0x80..=0x8F).contains(&s[i + 1]) && t37_cont(s[i + 2]) && t37_cont(s[i + 3]) { 4 }
    else { 0 }
}
fn t37_valid(s: &[u8]) -> bool {
    let mut i = 0;
    while i < s.len() {
        let k = t37_len(s, i);
        if k == 0 { return false; }
        i += k;
    }
    true
}
// (UTF8_N / its unwinding limit UTF8_N + 2: 4 in the quick tier, 6 in the thorough tier)
const UTF8_N: usize = 4;
#[kani::proof]
#[kani::unwind(6)]
fn leaf_from_utf8_is_table_3_7() {
    let arr: [u8; UTF8_N] = kani::any();
    let len: usize = kani::any_where(|l: &usize| *l <= UTF8_N);
    let s = &arr[..len];
    let r = core::str::from_utf8(s);
    assert_eq!(r.is_ok(), t37_valid(s));
    if let Ok(st) = r {
        assert!(st.as_bytes().as_ptr() == s.as_ptr() && st.len() == len);
    }
}
