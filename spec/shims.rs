// ---- class predicates of lib.rs (external real text; each contract is a 256-case Kani leaf)
pub assume_specification[ is_method_token ](b: u8) -> (r: bool) ensures r == is_tchar(b);
pub assume_specification[ is_header_name_token ](b: u8) -> (r: bool) ensures r == is_tchar(b);
pub assume_specification[ is_uri_token ](b: u8) -> (r: bool) ensures r == is_uri(b);
pub assume_specification[ is_header_value_token ](b: u8) -> (r: bool) ensures r == is_hval(b);

// ---- strings: &str is opaque; its bytes are an uninterpreted observer; UTF-8 validity is whatever core decides
pub uninterp spec fn str_bytes(s: &str) -> Seq<u8>;
pub uninterp spec fn valid_utf8(s: Seq<u8>) -> bool;
pub open spec fn all_ascii(s: Seq<u8>) -> bool { forall|i: int| 0 <= i < s.len() ==> s[i] < 0x80 }
// ASCII is valid UTF-8 (Unicode standard, table 3-7, first row) -- the fact that makes from_utf8_unchecked sound
pub broadcast axiom fn axiom_ascii_is_utf8(s: Seq<u8>)
    requires all_ascii(s),
    ensures #[trigger] valid_utf8(s);
pub assume_specification<'a>[ core::str::from_utf8_unchecked ](b: &'a [u8]) -> (r: &'a str)
    requires all_ascii(b@),
    ensures str_bytes(r) == b@;
#[verifier::external_type_specification]
#[verifier::external_body]
pub struct ExUtf8Error(core::str::Utf8Error);
pub assume_specification<'a>[ core::str::from_utf8 ](b: &'a [u8]) -> (r: core::result::Result<&'a str, core::str::Utf8Error>)
    ensures r.is_ok() <==> valid_utf8(b@), r.is_ok() ==> str_bytes(r.unwrap()) == b@;

// ---- little-endian value of 8 bytes (R2)
pub open spec fn le64(s: Seq<u8>) -> u64 { vstd::bytes::spec_u64_from_le_bytes(s) }
#[verifier::external_body]
pub const fn u64_from_ne_bytes(a: [u8; 8]) -> (r: u64)
    ensures r == le64(a@)
{ u64::from_ne_bytes(a) }

// ---- R8: address of the cursor
#[verifier::external_body]
pub fn cursor_addr(b: &Bytes) -> (r: usize)
    requires b_inv(b),
    ensures r == b_base(b) + b_cur(b), b_base(b) >= 0, b_base(b) + b_buf(b).len() <= usize::MAX
{ b.as_ref().as_ptr() as usize }

// ---- R9: Iterator::rposition on a byte slice
#[verifier::external_body]
pub fn slice_rposition<'a, P: Fn(&'a u8) -> bool>(s: &'a [u8], p: P) -> (r: Option<usize>)
    requires forall|x: &'a u8| call_requires(p, (x,)),
    ensures
        s@.len() <= usize::MAX,
        match r {
            Some(i) => i < s@.len() && call_ensures(p, (&s@[i as int],), true)
                && forall|j: int| i < j < s@.len() ==> call_ensures(p, (#[trigger] &s@[j],), false),
            None => forall|j: int| 0 <= j < s@.len() ==> call_ensures(p, (#[trigger] &s@[j],), false),
        }
{ s.iter().rposition(p) }

// ---- R5: the build profile is an arbitrary boolean, so one proof covers debug and release
#[verifier::external_body]
pub fn dbg_profile() -> (r: bool) { cfg!(debug_assertions) }

// ---- generic result of a spec-level parse step: value + cursor after it
pub enum SRes<T> { Complete(T, int), Partial, Err(Error) }
pub open spec fn res_is<T>(r: Result<T>, sr: SRes<T>) -> bool {
    match sr {
        SRes::Complete(v, c) => r == Ok::<Status<T>, Error>(Status::Complete(v)),
        SRes::Partial => r == Ok::<Status<T>, Error>(Status::Partial),
        SRes::Err(e) => r == Err::<Status<T>, Error>(e),
    }
}

// the empty string literal has no bytes
pub axiom fn axiom_empty_str()
    ensures str_bytes("") == Seq::<u8>::empty();

// ---- the two slice-cast helpers of lib.rs (external real text): identity casts; Kani leaf leaf_slice_casts_are_identity
pub assume_specification<'a, T>[ assume_init_slice::<T> ](s: &'a mut [MaybeUninit<T>]) -> (r: &'a mut [T]);
