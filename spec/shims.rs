// ---- class predicates of lib.rs (external real text; each contract is a 256-case Kani leaf)
pub assume_specification[ is_method_token ](b: u8) -> (r: bool) ensures r == is_tchar(b);
pub assume_specification[ is_header_name_token ](b: u8) -> (r: bool) ensures r == is_tchar(b);
pub assume_specification[ is_uri_token ](b: u8) -> (r: bool) ensures r == is_uri(b);
pub assume_specification[ is_header_value_token ](b: u8) -> (r: bool) ensures r == is_hval(b);

// ---- strings: &str is opaque; its bytes are an uninterpreted observer
pub uninterp spec fn str_bytes(s: &str) -> Seq<u8>;
// UTF-8 validity is DEFINED (Unicode standard, table 3-7 "well-formed UTF-8 byte sequences"); core::str::from_utf8 is assumed to
// decide exactly this (std contract; Kani leaf leaf_from_utf8_is_table_3_7 compares the two on every sequence of <= 4 bytes)
pub open spec fn u8_cont(b: u8) -> bool { 0x80 <= b <= 0xBF }
pub open spec fn utf8_seq_len(s: Seq<u8>, i: int) -> int {
    let n = s.len() as int;
    let b0 = s[i];
    if b0 < 0x80 { 1 }
    else if 0xC2 <= b0 <= 0xDF && i + 1 < n && u8_cont(s[i + 1]) { 2 }
    else if b0 == 0xE0 && i + 2 < n && 0xA0 <= s[i + 1] <= 0xBF && u8_cont(s[i + 2]) { 3 }
    else if (0xE1 <= b0 <= 0xEC || 0xEE <= b0 <= 0xEF) && i + 2 < n && u8_cont(s[i + 1]) && u8_cont(s[i + 2]) { 3 }
    else if b0 == 0xED && i + 2 < n && 0x80 <= s[i + 1] <= 0x9F && u8_cont(s[i + 2]) { 3 }
    else if b0 == 0xF0 && i + 3 < n && 0x90 <= s[i + 1] <= 0xBF && u8_cont(s[i + 2]) && u8_cont(s[i + 3]) { 4 }
    else if 0xF1 <= b0 <= 0xF3 && i + 3 < n && u8_cont(s[i + 1]) && u8_cont(s[i + 2]) && u8_cont(s[i + 3]) { 4 }
    else if b0 == 0xF4 && i + 3 < n && 0x80 <= s[i + 1] <= 0x8F && u8_cont(s[i + 2]) && u8_cont(s[i + 3]) { 4 }
    else { 0 }
}
pub open spec fn valid_utf8_from(s: Seq<u8>, i: int) -> bool
    decreases s.len() - i
{
    if i < 0 || i >= s.len() { true } else { utf8_seq_len(s, i) > 0 && valid_utf8_from(s, i + utf8_seq_len(s, i)) }
}
#[verifier::opaque]
pub open spec fn valid_utf8(s: Seq<u8>) -> bool { valid_utf8_from(s, 0) }
pub open spec fn all_ascii(s: Seq<u8>) -> bool { forall|i: int| 0 <= i < s.len() ==> s[i] < 0x80 }
pub proof fn lemma_ascii_valid_from(s: Seq<u8>, i: int)
    requires all_ascii(s), 0 <= i,
    ensures valid_utf8_from(s, i),
    decreases s.len() - i
{
    if i < s.len() { assert(s[i] < 0x80); lemma_ascii_valid_from(s, i + 1); }
}
// ASCII is valid UTF-8 (table 3-7, first row) -- the fact that makes from_utf8_unchecked sound; a LEMMA since valid_utf8 is defined
pub broadcast proof fn lemma_ascii_is_utf8(s: Seq<u8>)
    requires all_ascii(s),
    ensures #[trigger] valid_utf8(s),
{
    reveal(valid_utf8);
    lemma_ascii_valid_from(s, 0);
}
pub assume_specification<'a>[ core::str::from_utf8_unchecked ](b: &'a [u8]) -> (r: &'a str)
    requires all_ascii(b@),
    ensures str_bytes(r) == b@;
#[verifier::external_type_specification]
#[verifier::external_body]
pub struct ExUtf8Error(core::str::Utf8Error);
pub assume_specification<'a>[ core::str::from_utf8 ](b: &'a [u8]) -> (r: core::result::Result<&'a str, core::str::Utf8Error>)
    ensures r.is_ok() <==> valid_utf8(b@), r.is_ok() ==> str_bytes(r.unwrap()) == b@;

// ---- little-endian value of 8 bytes (R2)
pub open spec fn le64(s: Seq<u8>) -> u64 { vstd::bytes::spec_u64_from_le_bytes(s) }
#[verifier::external_body]
pub const fn u64_from_ne_bytes(a: [u8; 8]) -> (r: u64)
    ensures r == le64(a@)
{ u64::from_ne_bytes(a) }

// ---- R8: address of the cursor
#[verifier::external_body]
pub fn cursor_addr(b: &Bytes) -> (r: usize)
    requires b_inv(b),
    ensures r == b_base(b) + b_cur(b), b_base(b) >= 0, b_base(b) + b_buf(b).len() <= usize::MAX
{ b.as_ref().as_ptr() as usize }

// ---- R9: Iterator::rposition on a byte slice
#[verifier::external_body]
pub fn slice_rposition<'a, P: Fn(&'a u8) -> bool>(s: &'a [u8], p: P) -> (r: Option<usize>)
    requires forall|x: &'a u8| call_requires(p, (x,)),
    ensures
        s@.len() <= usize::MAX,
        match r {
            Some(i) => i < s@.len() && call_ensures(p, (&s@[i as int],), true)
                && forall|j: int| i < j < s@.len() ==> call_ensures(p, (#[trigger] &s@[j],), false),
            None => forall|j: int| 0 <= j < s@.len() ==> call_ensures(p, (#[trigger] &s@[j],), false),
        }
{ s.iter().rposition(p) }

// ---- R5: the build profile is an arbitrary boolean, so one proof covers debug and release
#[verifier::external_body]
pub fn dbg_profile() -> (r: bool) { cfg!(debug_assertions) }

// ---- generic result of a spec-level parse step: value + cursor after it
pub enum SRes<T> { Complete(T, int), Partial, Err(Error) }
pub open spec fn res_is<T>(r: Result<T>, sr: SRes<T>) -> bool {
    match sr {
        SRes::Complete(v, c) => r == Ok::<Status<T>, Error>(Status::Complete(v)),
        SRes::Partial => r == Ok::<Status<T>, Error>(Status::Partial),
        SRes::Err(e) => r == Err::<Status<T>, Error>(e),
    }
}

// the empty string literal has no bytes
pub axiom fn axiom_empty_str()
    ensures str_bytes("") == Seq::<u8>::empty();

// ---- the two slice-cast helpers of lib.rs (external real text): identity casts; Kani leaf leaf_slice_casts_are_identity
pub assume_specification<'a, T>[ assume_init_slice::<T> ](s: &'a mut [MaybeUninit<T>]) -> (r: &'a mut [T]);
