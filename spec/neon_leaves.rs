// ---- NEON block leaves (R10: one-line wrappers whose body is the real call; the real block functions above run on the
// emulation of the 13 aarch64 items they use, rule N1; Kani over all 2^128 blocks, block = its own 16-byte object)
#[verifier::external_body]
pub fn match_header_name_char_16_neon_at(buf: &[u8]) -> (r: usize)
    requires buf@.len() >= 16,
    ensures r == first_not(cls_tchar(), buf@.subrange(0, 16), 0)
{ unsafe { match_header_name_char_16_neon(buf.as_ptr()) } }
#[verifier::external_body]
pub fn match_url_char_16_neon_at(buf: &[u8]) -> (r: usize)
    requires buf@.len() >= 16,
    ensures r == first_not(cls_uri(), buf@.subrange(0, 16), 0)
{ unsafe { match_url_char_16_neon(buf.as_ptr()) } }
#[verifier::external_body]
pub fn match_header_value_char_16_neon_at(buf: &[u8]) -> (r: usize)
    requires buf@.len() >= 16,
    ensures r == first_not(cls_hval(), buf@.subrange(0, 16), 0)
{ unsafe { match_header_value_char_16_neon(buf.as_ptr()) } }
