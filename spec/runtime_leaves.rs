// ---- the cached feature byte: any value may come back (strictly more behaviours than the real cache);
// every branch of the dispatchers must then satisfy the one scanner contract (C12, C13)
pub assume_specification[ get_runtime_feature ]() -> (r: u8);
