// ---- SSE4.2 block leaves (external real text; Kani over all 2^128 blocks, lddqu / max_epu8 stubbed with SDM semantics)
pub assume_specification[ match_url_char_16_sse ](buf: &[u8]) -> (r: usize)
    requires buf@.len() >= 16,
    ensures r == first_not(cls_uri(), buf@.subrange(0, 16), 0);
pub assume_specification[ match_header_value_char_16_sse ](buf: &[u8]) -> (r: usize)
    requires buf@.len() >= 16,
    ensures r == first_not(cls_hval(), buf@.subrange(0, 16), 0);
