// =====================================================================================================
// Oracle for the chunk-size line, written from the sentence of C09.
// =====================================================================================================
pub open spec fn is_hex(b: u8) -> bool { (0x30 <= b <= 0x39) || (0x61 <= b <= 0x66) || (0x41 <= b <= 0x46) }
pub open spec fn cls_hex() -> spec_fn(u8) -> bool { |b: u8| is_hex(b) }
pub open spec fn cls_not_cr() -> spec_fn(u8) -> bool { |b: u8| b != 0x0d }
pub open spec fn hex_digit(b: u8) -> int {
    if 0x30 <= b <= 0x39 { b - 0x30 } else if 0x61 <= b <= 0x66 { b - 0x61 + 10 } else { b - 0x41 + 10 }
}
// "the exact unsigned value of the digits" -- a mathematical natural number, never wrapped
pub open spec fn hex_value(s: Seq<u8>) -> int
    decreases s.len()
{
    if s.len() == 0 { 0 } else { hex_value(s.drop_last()) * 16 + hex_digit(s.last()) }
}
pub enum SChunk { Complete(int, int), Partial, Invalid }

// CRLF at position e (where a CR has been seen)
pub open spec fn spec_chunk_crlf(s: Seq<u8>, e: int, v: int) -> SChunk {
    if e + 1 >= s.len() { SChunk::Partial } else if s[e + 1] == 0x0a { SChunk::Complete(e + 2, v) } else { SChunk::Invalid }
}
pub open spec fn spec_chunk(s: Seq<u8>) -> SChunk {
    let d = first_not(cls_hex(), s, 0);                 // the digits are s[0..d)
    if d > 16 { SChunk::Invalid }                        // "more than 16 digits"
    else if d >= s.len() { SChunk::Partial }
    else if d == 0 { SChunk::Invalid }                   // "no digit at all"
    else {
        let v = hex_value(s.subrange(0, d));
        let w = first_not(cls_spht(), s, d);             // "then optional SP/HTAB"
        if w >= s.len() { SChunk::Partial }
        else if s[w] == 0x3b {                           // "optionally ';' followed by arbitrary bytes other than CR"
            let e = first_not(cls_not_cr(), s, w + 1);
            if e >= s.len() { SChunk::Partial } else { spec_chunk_crlf(s, e, v) }
        }
        else if s[w] == 0x0d { spec_chunk_crlf(s, w, v) }  // "then CRLF"; "a CR not followed by LF" is invalid
        else { SChunk::Invalid }                         // non-hex byte before the extension, digit after whitespace, bare LF
    }
}

pub open spec fn pow16(n: nat) -> int decreases n { if n == 0 { 1 } else { 16 * pow16((n - 1) as nat) } }
pub proof fn lemma_hex_value_bound(s: Seq<u8>)
    requires forall|k: int| 0 <= k < s.len() ==> is_hex(#[trigger] s[k]),
    ensures 0 <= hex_value(s) < pow16(s.len())
    decreases s.len()
{
    if s.len() > 0 {
        lemma_hex_value_bound(s.drop_last());
        assert(is_hex(s.last()));
    }
}
pub proof fn lemma_pow16_mono(a: nat, b: nat)
    requires a <= b,
    ensures 0 < pow16(a) <= pow16(b)
    decreases b
{
    if a < b { lemma_pow16_mono(a, (b - 1) as nat); } else if a > 0 { lemma_pow16_mono((a - 1) as nat, (a - 1) as nat); }
}
pub proof fn lemma_pow16_values()
    ensures pow16(15) == 0x1000_0000_0000_0000int, pow16(16) == 0x1_0000_0000_0000_0000int
{
    assert(pow16(15) == 0x1000_0000_0000_0000int) by (compute);
    assert(pow16(16) == 0x1_0000_0000_0000_0000int) by (compute);
}
// one more digit
pub proof fn lemma_hex_value_push(s: Seq<u8>, n: int)
    requires 0 <= n < s.len(),
    ensures hex_value(s.subrange(0, n + 1)) == hex_value(s.subrange(0, n)) * 16 + hex_digit(s[n])
{
    assert(s.subrange(0, n + 1).drop_last() =~= s.subrange(0, n));
}
