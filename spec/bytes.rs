// ---- the raw-pointer cursor (src/iter.rs) as an opaque type with four observers.
// Every contract below is ASSUMED here and DISCHARGED by a Kani harness on the real method (kani/harnesses.rs, see
// contracts/leaves.json for the pairing).  `b_base` is the address of byte 0 of the buffer.
#[verifier::external_type_specification]
#[verifier::external_body]
pub struct ExBytes<'a>(Bytes<'a>);

pub uninterp spec fn b_buf(b: &Bytes) -> Seq<u8>;
pub uninterp spec fn b_start(b: &Bytes) -> int;
pub uninterp spec fn b_cur(b: &Bytes) -> int;
pub uninterp spec fn b_base(b: &Bytes) -> int;
pub open spec fn b_inv(b: &Bytes) -> bool { 0 <= b_start(b) <= b_cur(b) <= b_buf(b).len() }
// what no method ever changes
pub open spec fn b_same(a: &Bytes, b: &Bytes) -> bool { b_buf(a) == b_buf(b) && b_base(a) == b_base(b) }
// remaining input
pub open spec fn b_rest(b: &Bytes) -> Seq<u8> { b_buf(b).subrange(b_cur(b), b_buf(b).len() as int) }

pub assume_specification<'a>[ Bytes::<'a>::new ](s: &'a [u8]) -> (b: Bytes<'a>)
    ensures b_inv(&b), b_buf(&b) == s@, b_start(&b) == 0, b_cur(&b) == 0;

pub assume_specification<'a>[ Bytes::<'a>::pos ](b: &Bytes<'a>) -> (r: usize)
    requires b_inv(b),
    ensures r == b_cur(b) - b_start(b);

pub assume_specification<'a>[ Bytes::<'a>::len ](b: &Bytes<'a>) -> (r: usize)
    requires b_inv(b),
    ensures r == b_buf(b).len() - b_cur(b);

pub assume_specification<'a>[ Bytes::<'a>::peek ](b: &Bytes<'a>) -> (r: Option<u8>)
    requires b_inv(b),
    ensures
        b_cur(b) < b_buf(b).len() ==> r == Some(b_buf(b)[b_cur(b)]),
        b_cur(b) >= b_buf(b).len() ==> r.is_none();

pub assume_specification<'a>[ Bytes::<'a>::peek_ahead ](b: &Bytes<'a>, n: usize) -> (r: Option<u8>)
    requires b_inv(b), b_cur(b) + n <= b_buf(b).len(),
    ensures
        b_cur(b) + n < b_buf(b).len() ==> r == Some(b_buf(b)[b_cur(b) + n]),
        b_cur(b) + n >= b_buf(b).len() ==> r.is_none();

pub assume_specification<'a>[ Bytes::<'a>::bump ](b: &mut Bytes<'a>)
    requires b_inv(old(b)), b_cur(old(b)) < b_buf(old(b)).len(),
    ensures b_inv(final(b)), b_same(final(b), old(b)), b_start(final(b)) == b_start(old(b)), b_cur(final(b)) == b_cur(old(b)) + 1;

pub assume_specification<'a>[ Bytes::<'a>::advance ](b: &mut Bytes<'a>, n: usize)
    requires b_inv(old(b)), b_cur(old(b)) + n <= b_buf(old(b)).len(),
    ensures b_inv(final(b)), b_same(final(b), old(b)), b_start(final(b)) == b_start(old(b)), b_cur(final(b)) == b_cur(old(b)) + n;

pub assume_specification<'a>[ Bytes::<'a>::advance_and_commit ](b: &mut Bytes<'a>, n: usize)
    requires b_inv(old(b)), b_cur(old(b)) + n <= b_buf(old(b)).len(),
    ensures b_inv(final(b)), b_same(final(b), old(b)), b_start(final(b)) == b_cur(old(b)) + n, b_cur(final(b)) == b_cur(old(b)) + n;

pub assume_specification<'a>[ Bytes::<'a>::commit ](b: &mut Bytes<'a>)
    requires b_inv(old(b)),
    ensures b_inv(final(b)), b_same(final(b), old(b)), b_start(final(b)) == b_cur(old(b)), b_cur(final(b)) == b_cur(old(b));

pub assume_specification<'a>[ Bytes::<'a>::slice ](b: &mut Bytes<'a>) -> (r: &'a [u8])
    requires b_inv(old(b)),
    ensures b_inv(final(b)), b_same(final(b), old(b)), b_start(final(b)) == b_cur(old(b)), b_cur(final(b)) == b_cur(old(b)),
      r@ == b_buf(old(b)).subrange(b_start(old(b)), b_cur(old(b)));

pub assume_specification<'a>[ Bytes::<'a>::slice_skip ](b: &mut Bytes<'a>, skip: usize) -> (r: &'a [u8])
    requires b_inv(old(b)), skip <= b_cur(old(b)) - b_start(old(b)),
    ensures b_inv(final(b)), b_same(final(b), old(b)), b_start(final(b)) == b_cur(old(b)), b_cur(final(b)) == b_cur(old(b)),
      r@ == b_buf(old(b)).subrange(b_start(old(b)), b_cur(old(b)) - skip);

// trait method: Verus allows no `requires` here, so the contract is conditional on the invariant
pub assume_specification<'a>[ <Bytes<'a> as Iterator>::next ](b: &mut Bytes<'a>) -> (r: Option<u8>)
    ensures b_inv(old(b)) ==> b_inv(final(b)), b_same(final(b), old(b)), b_start(final(b)) == b_start(old(b)),
        b_inv(old(b)) && b_cur(old(b)) < b_buf(old(b)).len() ==> r == Some(b_buf(old(b))[b_cur(old(b))]) && b_cur(final(b)) == b_cur(old(b)) + 1,
        b_inv(old(b)) && b_cur(old(b)) >= b_buf(old(b)).len() ==> r.is_none() && b_cur(final(b)) == b_cur(old(b));

pub mod tfs {
    use vstd::prelude::*;
    pub uninterp spec fn try_from_slice<U>(s: Seq<u8>) -> Option<U>;
    pub broadcast axiom fn try_from_slice_arr8(s: Seq<u8>)
        ensures #[trigger] try_from_slice::<[u8; 8]>(s) matches Some(a) ==> s.len() == 8 && a@ == s,
                s.len() == 8 ==> try_from_slice::<[u8; 8]>(s).is_some();
    pub broadcast axiom fn try_from_slice_arr4(s: Seq<u8>)
        ensures #[trigger] try_from_slice::<[u8; 4]>(s) matches Some(a) ==> s.len() == 4 && a@ == s,
                s.len() == 4 ==> try_from_slice::<[u8; 4]>(s).is_some();
    pub broadcast axiom fn try_from_slice_arr1(s: Seq<u8>)
        ensures #[trigger] try_from_slice::<[u8; 1]>(s) matches Some(a) ==> s.len() == 1 && a@ == s,
                s.len() == 1 ==> try_from_slice::<[u8; 1]>(s).is_some();
    pub broadcast axiom fn try_from_slice_arr2(s: Seq<u8>)
        ensures #[trigger] try_from_slice::<[u8; 2]>(s) matches Some(a) ==> s.len() == 2 && a@ == s,
                s.len() == 2 ==> try_from_slice::<[u8; 2]>(s).is_some();
    pub broadcast axiom fn try_from_slice_arr3(s: Seq<u8>)
        ensures #[trigger] try_from_slice::<[u8; 3]>(s) matches Some(a) ==> s.len() == 3 && a@ == s,
                s.len() == 3 ==> try_from_slice::<[u8; 3]>(s).is_some();
    pub broadcast axiom fn try_from_slice_arr5(s: Seq<u8>)
        ensures #[trigger] try_from_slice::<[u8; 5]>(s) matches Some(a) ==> s.len() == 5 && a@ == s,
                s.len() == 5 ==> try_from_slice::<[u8; 5]>(s).is_some();
    pub broadcast axiom fn try_from_slice_arr6(s: Seq<u8>)
        ensures #[trigger] try_from_slice::<[u8; 6]>(s) matches Some(a) ==> s.len() == 6 && a@ == s,
                s.len() == 6 ==> try_from_slice::<[u8; 6]>(s).is_some();
    pub broadcast axiom fn try_from_slice_arr7(s: Seq<u8>)
        ensures #[trigger] try_from_slice::<[u8; 7]>(s) matches Some(a) ==> s.len() == 7 && a@ == s,
                s.len() == 7 ==> try_from_slice::<[u8; 7]>(s).is_some();
    pub broadcast axiom fn try_from_slice_arr16(s: Seq<u8>)
        ensures #[trigger] try_from_slice::<[u8; 16]>(s) matches Some(a) ==> s.len() == 16 && a@ == s,
                s.len() == 16 ==> try_from_slice::<[u8; 16]>(s).is_some();
    pub broadcast axiom fn try_from_slice_arr32(s: Seq<u8>)
        ensures #[trigger] try_from_slice::<[u8; 32]>(s) matches Some(a) ==> s.len() == 32 && a@ == s,
                s.len() == 32 ==> try_from_slice::<[u8; 32]>(s).is_some();
}
pub use tfs::*;
broadcast use {tfs::try_from_slice_arr8, tfs::try_from_slice_arr4, tfs::try_from_slice_arr1, tfs::try_from_slice_arr2, tfs::try_from_slice_arr3,
    tfs::try_from_slice_arr5, tfs::try_from_slice_arr6, tfs::try_from_slice_arr7, tfs::try_from_slice_arr16, tfs::try_from_slice_arr32};
pub assume_specification<'a, 'b: 'a, U: core::convert::TryFrom<&'a [u8]>>[ Bytes::<'a>::peek_n::<'b, U> ](b: &'b Bytes<'a>, n: usize) -> (r: Option<U>)
    requires b_inv(b),
    ensures
        b_cur(b) + n <= b_buf(b).len() ==> r == try_from_slice::<U>(b_buf(b).subrange(b_cur(b), b_cur(b) + n)),
        b_cur(b) + n > b_buf(b).len() ==> r.is_none();

pub assume_specification<'a, 'c>[ <Bytes<'a> as AsRef<[u8]>>::as_ref ](b: &'c Bytes<'a>) -> (r: &'c [u8])
    ensures b_inv(b) ==> r@ == b_rest(b);
