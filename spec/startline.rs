// =====================================================================================================
// Oracle for the start line, written from the sentences of C06 / C07 / C10 (not from the code).
// Every component maps (buffer, position) to Complete(value, next position) | Partial | Err(kind).
// =====================================================================================================

// "zero or more leading empty lines (CRLF or LF)"; C10: a CR not followed by LF in leading empty lines is NewLine
pub open spec fn spec_empty_lines(s: Seq<u8>, i: int) -> SRes<()>
    decreases s.len() - i
{
    if i < 0 || i >= s.len() { SRes::Partial }
    else if s[i] == 0x0d {
        if i + 1 >= s.len() { SRes::Partial }
        else if s[i + 1] == 0x0a { spec_empty_lines(s, i + 2) }
        else { SRes::Err(Error::NewLine) }
    }
    else if s[i] == 0x0a { spec_empty_lines(s, i + 1) }
    else { SRes::Complete((), i) }
}

// "each of the two SP delimiters may be a run of SP": skip the run; the byte after it must be present to know it ended
pub open spec fn spec_spaces(s: Seq<u8>, i: int) -> SRes<()> {
    let j = first_not(cls_sp(), s, i);
    if j >= s.len() { SRes::Partial } else { SRes::Complete((), j) }
}

// "a method of one or more tchar, one SP"  -> value = (lo, hi) byte range of the method
pub open spec fn spec_token(s: Seq<u8>, i: int) -> SRes<(int, int)> {
    let j = first_not(cls_tchar(), s, i);
    if j >= s.len() { SRes::Partial }
    else if j > i && s[j] == 0x20 { SRes::Complete((i, j), j + 1) }
    else { SRes::Err(Error::Token) }
}

// "a target of one or more bytes from 0x21-0x7E or 0x80-0xFF forming valid UTF-8, one SP"
pub open spec fn spec_uri(s: Seq<u8>, i: int) -> SRes<(int, int)> {
    let j = first_not(cls_uri(), s, i);
    if j >= s.len() { SRes::Partial }
    else if j > i && s[j] == 0x20 && valid_utf8(s.subrange(i, j)) { SRes::Complete((i, j), j + 1) }
    else { SRes::Err(Error::Token) }
}

// "the literal HTTP/1.0 or HTTP/1.1"; version = the final digit.  k-th byte of the literal, k in 0..7
pub open spec fn http1_lit() -> Seq<u8> { seq![0x48u8, 0x54, 0x54, 0x50, 0x2f, 0x31, 0x2e] }
pub open spec fn agrees_lit(s: Seq<u8>, i: int, n: int) -> bool {
    forall|k: int| 0 <= k < n ==> #[trigger] s[i + k] == http1_lit()[k]
}
pub open spec fn spec_version(s: Seq<u8>, i: int) -> SRes<u8> {
    let avail = s.len() - i;
    if avail >= 8 {
        if agrees_lit(s, i, 7) && s[i + 7] == 0x30 { SRes::Complete(0u8, i + 8) }
        else if agrees_lit(s, i, 7) && s[i + 7] == 0x31 { SRes::Complete(1u8, i + 8) }
        else { SRes::Err(Error::Version) }
    } else {
        // fewer than 8 bytes: wrong as soon as a received byte differs from the literal (C11), else wait
        if agrees_lit(s, i, if avail < 7 { avail } else { 7 }) { SRes::Partial } else { SRes::Err(Error::Version) }
    }
}

// a line end "CRLF or LF"; the error kind depends on the element it terminates (C10)
pub open spec fn spec_eol(s: Seq<u8>, i: int, e: Error) -> SRes<()> {
    if i >= s.len() { SRes::Partial }
    else if s[i] == 0x0d {
        if i + 1 >= s.len() { SRes::Partial }
        else if s[i + 1] == 0x0a { SRes::Complete((), i + 2) }
        else { SRes::Err(e) }
    }
    else if s[i] == 0x0a { SRes::Complete((), i + 1) }
    else { SRes::Err(e) }
}

// "three ASCII digits"; code = their decimal value
pub open spec fn spec_code(s: Seq<u8>, i: int) -> SRes<u16> {
    if i >= s.len() { SRes::Partial } else if !is_digit(s[i]) { SRes::Err(Error::Status) }
    else if i + 1 >= s.len() { SRes::Partial } else if !is_digit(s[i + 1]) { SRes::Err(Error::Status) }
    else if i + 2 >= s.len() { SRes::Partial } else if !is_digit(s[i + 2]) { SRes::Err(Error::Status) }
    else { SRes::Complete(((s[i] - 0x30) * 100 + (s[i + 1] - 0x30) * 10 + (s[i + 2] - 0x30)) as u16, i + 3) }
}

// "a possibly empty reason of HTAB/SP/0x21-0x7E/0x80-0xFF bytes and a line end";
// value = (lo, hi, obs) : obs <=> the run contains a byte >= 0x80 (then the reported reason is the empty string)
pub open spec fn is_reason(b: u8) -> bool { b == 9 || b == 0x20 || (0x21 <= b <= 0x7e) || b >= 0x80 }
pub open spec fn cls_reason() -> spec_fn(u8) -> bool { |b: u8| is_reason(b) }
pub open spec fn has_obs(s: Seq<u8>, lo: int, hi: int) -> bool { exists|k: int| lo <= k < hi && #[trigger] s[k] >= 0x80 }
pub open spec fn spec_reason(s: Seq<u8>, i: int) -> SRes<(int, int, bool)> {
    let j = first_not(cls_reason(), s, i);
    match spec_eol(s, j, Error::Status) {
        SRes::Complete(_, c) => SRes::Complete((i, j, has_obs(s, i, j)), c),
        SRes::Partial => SRes::Partial,
        SRes::Err(e) => SRes::Err(e),
    }
}

// ---- the 8-byte compare of parse_version agrees with byte-wise matching (little-endian decoding is injective)
pub proof fn lemma_le64_injective(a: Seq<u8>, b: Seq<u8>)
    requires a.len() == 8, b.len() == 8, le64(a) == le64(b),
    ensures a == b
{
    vstd::bytes::lemma_auto_spec_u64_to_from_le_bytes();
    assert(vstd::bytes::spec_u64_to_le_bytes(le64(a)) == a);
    assert(vstd::bytes::spec_u64_to_le_bytes(le64(b)) == b);
}
pub open spec fn lit10() -> Seq<u8> { seq![0x48u8, 0x54, 0x54, 0x50, 0x2f, 0x31, 0x2e, 0x30] }
pub open spec fn lit11() -> Seq<u8> { seq![0x48u8, 0x54, 0x54, 0x50, 0x2f, 0x31, 0x2e, 0x31] }
pub proof fn lemma_version_word(w: Seq<u8>)
    requires w.len() == 8,
    ensures
        le64(w) == le64(lit10()) <==> w == lit10(),
        le64(w) == le64(lit11()) <==> w == lit11(),
        w == lit10() <==> (forall|k: int| 0 <= k < 7 ==> #[trigger] w[k] == http1_lit()[k]) && w[7] == 0x30,
        w == lit11() <==> (forall|k: int| 0 <= k < 7 ==> #[trigger] w[k] == http1_lit()[k]) && w[7] == 0x31,
{
    if le64(w) == le64(lit10()) { lemma_le64_injective(w, lit10()); }
    if le64(w) == le64(lit11()) { lemma_le64_injective(w, lit11()); }
    if (forall|k: int| 0 <= k < 7 ==> #[trigger] w[k] == http1_lit()[k]) && w[7] == 0x30 {
        assert(w[0] == http1_lit()[0] && w[1] == http1_lit()[1] && w[2] == http1_lit()[2] && w[3] == http1_lit()[3] && w[4] == http1_lit()[4] && w[5] == http1_lit()[5] && w[6] == http1_lit()[6]);
        assert(w =~= lit10());
    }
    if (forall|k: int| 0 <= k < 7 ==> #[trigger] w[k] == http1_lit()[k]) && w[7] == 0x31 {
        assert(w[0] == http1_lit()[0] && w[1] == http1_lit()[1] && w[2] == http1_lit()[2] && w[3] == http1_lit()[3] && w[4] == http1_lit()[4] && w[5] == http1_lit()[5] && w[6] == http1_lit()[6]);
        assert(w =~= lit11());
    }
}
