broadcast use {crate::tfs::try_from_slice_arr8, crate::tfs::try_from_slice_arr4};
// ---- word-at-a-time leaves (external real text; contracts discharged by Kani over all 2^64 blocks)
pub assume_specification[ match_uri_char_8_swar ](block: ByteBlock) -> (r: usize)
    ensures r == first_not(cls_uri(), block@, 0);
pub assume_specification[ match_header_value_char_8_swar ](block: ByteBlock) -> (r: usize)
    ensures r == first_not(cls_hval_swar(), block@, 0);
pub assume_specification<F: Fn(u8) -> bool>[ match_block ](f: F, block: ByteBlock) -> (r: usize)
    requires forall|b: u8| call_requires(f, (b,)),
    ensures r <= 8, forall|i: int| 0 <= i < r ==> call_ensures(f, (block@[i],), true),
            r < 8 ==> call_ensures(f, (block@[r as int],), false);
pub assume_specification<F: Fn(u8) -> bool>[ match_tail ](f: F, bytes: &[u8]) -> (r: usize)
    requires forall|b: u8| call_requires(f, (b,)),
    ensures r <= bytes@.len(), forall|i: int| 0 <= i < r ==> call_ensures(f, (bytes@[i],), true),
            r < bytes@.len() ==> call_ensures(f, (bytes@[r as int],), false);
