// ---- byte classes, written from the statement of C12 / C05 (not from the tables)
pub open spec fn is_tchar(b: u8) -> bool {
    (0x41 <= b <= 0x5a) || (0x61 <= b <= 0x7a) || (0x30 <= b <= 0x39) ||
    b == 0x21 || b == 0x23 || b == 0x24 || b == 0x25 || b == 0x26 || b == 0x27 || b == 0x2a || b == 0x2b ||
    b == 0x2d || b == 0x2e || b == 0x5e || b == 0x5f || b == 0x60 || b == 0x7c || b == 0x7e
}
pub open spec fn is_uri(b: u8) -> bool { (0x21 <= b <= 0x7e) || b >= 0x80 }
pub open spec fn is_hval(b: u8) -> bool { b == 9 || (0x20 <= b <= 0x7e) || b >= 0x80 }
pub open spec fn is_sp(b: u8) -> bool { b == 0x20 }
pub open spec fn is_spht(b: u8) -> bool { b == 0x20 || b == 9 }
pub open spec fn is_digit(b: u8) -> bool { 0x30 <= b <= 0x39 }
// named closures for the classes (so that `first_not(cls_uri(), ..)` is one fixed term everywhere)
pub open spec fn cls_tchar() -> spec_fn(u8) -> bool { |b: u8| is_tchar(b) }
pub open spec fn cls_uri() -> spec_fn(u8) -> bool { |b: u8| is_uri(b) }
pub open spec fn cls_hval() -> spec_fn(u8) -> bool { |b: u8| is_hval(b) }
pub open spec fn cls_sp() -> spec_fn(u8) -> bool { |b: u8| is_sp(b) }
pub open spec fn cls_spht() -> spec_fn(u8) -> bool { |b: u8| is_spht(b) }
// the word-at-a-time header-value block function is deliberately conservative: it also stops at HTAB
pub open spec fn cls_hval_swar() -> spec_fn(u8) -> bool { |b: u8| b >= 0x20 && b != 0x7f }

// ---- first_not: least j >= i with !cls(s[j]), else |s|
pub open spec fn first_not(cls: spec_fn(u8) -> bool, s: Seq<u8>, i: int) -> int
    decreases s.len() - i
{
    if i >= s.len() { s.len() as int } else if i < 0 { i } else if !cls(s[i]) { i } else { first_not(cls, s, i + 1) }
}

pub proof fn lemma_first_not_char(cls: spec_fn(u8) -> bool, s: Seq<u8>, i: int, j: int)
    requires 0 <= i <= j <= s.len(), forall|k: int| i <= k < j ==> cls(#[trigger] s[k]), j < s.len() ==> !cls(s[j]),
    ensures first_not(cls, s, i) == j
    decreases j - i
{
    if i < j { lemma_first_not_char(cls, s, i + 1, j); }
}

pub proof fn lemma_first_not_props(cls: spec_fn(u8) -> bool, s: Seq<u8>, i: int)
    requires 0 <= i <= s.len(),
    ensures i <= first_not(cls, s, i) <= s.len(),
        forall|k: int| i <= k < first_not(cls, s, i) ==> cls(#[trigger] s[k]),
        first_not(cls, s, i) < s.len() ==> !cls(s[first_not(cls, s, i)]),
    decreases s.len() - i
{
    if i < s.len() && cls(s[i]) { lemma_first_not_props(cls, s, i + 1); }
}

// scanning on from any point inside the run reaches the same stop
pub proof fn lemma_first_not_step(cls: spec_fn(u8) -> bool, s: Seq<u8>, i: int, j: int)
    requires 0 <= i <= j <= s.len(), forall|k: int| i <= k < j ==> cls(#[trigger] s[k]),
    ensures first_not(cls, s, i) == first_not(cls, s, j)
    decreases j - i
{
    if i < j { lemma_first_not_step(cls, s, i + 1, j); }
}

// a sub-window: first_not over s.subrange(a, b) from 0 relates to first_not over s from a
pub proof fn lemma_first_not_window(cls: spec_fn(u8) -> bool, s: Seq<u8>, a: int, b: int)
    requires 0 <= a <= b <= s.len(),
    ensures ({
        let w = first_not(cls, s.subrange(a, b), 0);
        &&& 0 <= w <= b - a
        &&& (forall|k: int| a <= k < a + w ==> cls(#[trigger] s[k]))
        &&& (w < b - a ==> !cls(s[a + w]))
    })
{
    let t = s.subrange(a, b);
    lemma_first_not_props(cls, t, 0);
    let w = first_not(cls, t, 0);
    assert forall|k: int| a <= k < a + w implies cls(#[trigger] s[k]) by { assert(t[k - a] == s[k]); }
    if w < b - a { assert(t[w] == s[a + w]); }
}

// stronger class => stops no later
pub proof fn lemma_first_not_mono(c1: spec_fn(u8) -> bool, c2: spec_fn(u8) -> bool, s: Seq<u8>, i: int)
    requires 0 <= i <= s.len(), forall|b: u8| #[trigger] c1(b) ==> c2(b),
    ensures first_not(c1, s, i) <= first_not(c2, s, i)
    decreases s.len() - i
{
    if i < s.len() && c1(s[i]) { lemma_first_not_mono(c1, c2, s, i + 1); }
    else if i < s.len() { lemma_first_not_props(c2, s, i); }
}

// appending never moves a stop that lies inside the old buffer
// @tags C02
pub proof fn lemma_first_not_append(cls: spec_fn(u8) -> bool, s: Seq<u8>, t: Seq<u8>, i: int)
    requires 0 <= i <= s.len(), first_not(cls, s, i) < s.len(),
    ensures first_not(cls, s + t, i) == first_not(cls, s, i)
{
    lemma_first_not_props(cls, s, i);
    let j = first_not(cls, s, i);
    assert forall|k: int| i <= k < j implies cls(#[trigger] (s + t)[k]) by { assert((s + t)[k] == s[k]); }
    assert((s + t)[j] == s[j]);
    lemma_first_not_char(cls, s + t, i, j);
}
// ... and a run that reaches the end of the old buffer continues into the appended bytes
// @tags C02
pub proof fn lemma_first_not_append_run(cls: spec_fn(u8) -> bool, s: Seq<u8>, t: Seq<u8>, i: int)
    requires 0 <= i <= s.len(), first_not(cls, s, i) >= s.len(),
    ensures first_not(cls, s + t, i) >= s.len(),
            first_not(cls, s + t, i) == first_not(cls, s + t, s.len() as int)
{
    lemma_first_not_props(cls, s, i);
    assert forall|k: int| i <= k < s.len() implies cls(#[trigger] (s + t)[k]) by { assert((s + t)[k] == s[k]); }
    lemma_first_not_step(cls, s + t, i, s.len() as int);
    lemma_first_not_props(cls, s + t, s.len() as int);
}

// quantifier-free summary of first_not, for use inside large function bodies
pub proof fn lemma_first_not_bounds(cls: spec_fn(u8) -> bool, s: Seq<u8>, i: int)
    requires 0 <= i <= s.len(),
    ensures i <= first_not(cls, s, i) <= s.len(),
        first_not(cls, s, i) < s.len() ==> !cls(s[first_not(cls, s, i)]),
        i < s.len() && cls(s[i]) ==> first_not(cls, s, i) > i && first_not(cls, s, i) == first_not(cls, s, i + 1),
{
    lemma_first_not_props(cls, s, i);
}

// content facts about the value class, for contexts where the class definitions are hidden
pub proof fn lemma_hval_not_crlf(b: u8)
    ensures is_hval(b) ==> b != 0x0d && b != 0x0a && b != 0,
{}
