// ---- AVX2 block leaves (external real text; Kani over all 2^256 blocks, lddqu / max_epu8 stubbed with SDM semantics)
pub assume_specification[ match_url_char_32_avx ](buf: &[u8]) -> (r: usize)
    requires buf@.len() >= 32,
    ensures r == first_not(cls_uri(), buf@.subrange(0, 32), 0);
pub assume_specification[ match_header_value_char_32_avx ](buf: &[u8]) -> (r: usize)
    requires buf@.len() >= 32,
    ensures r == first_not(cls_hval(), buf@.subrange(0, 32), 0);
