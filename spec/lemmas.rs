// =====================================================================================================
// Whole-input properties proved over the oracle (layer L).  Together with the refinement "real function == oracle"
// (contracts/*.vspec) they transfer to the real code for every buffer, configuration and capacity.
// =====================================================================================================

// ------------------------------------------------------------------------------------------------ C02: stability under append
// For every component X:  X(s, i) is Complete or Err  ==>  X(s + t, i) == X(s, i)      (t = any further bytes)

pub proof fn lemma_append_index(s: Seq<u8>, t: Seq<u8>)
    ensures forall|k: int| 0 <= k < s.len() ==> #[trigger] (s + t)[k] == s[k], (s + t).len() == s.len() + t.len(),
{}

// @tags C02
pub proof fn lemma_empty_lines_stable(s: Seq<u8>, t: Seq<u8>, i: int)
    requires 0 <= i, !(spec_empty_lines(s, i) is Partial),
    ensures spec_empty_lines(s + t, i) == spec_empty_lines(s, i)
    decreases s.len() - i
{
    lemma_append_index(s, t);
    if i < s.len() {
        if s[i] == 0x0d { if i + 1 < s.len() && s[i + 1] == 0x0a { lemma_empty_lines_stable(s, t, i + 2); } }
        else if s[i] == 0x0a { lemma_empty_lines_stable(s, t, i + 1); }
    }
}
// @tags C02
pub proof fn lemma_spaces_stable(s: Seq<u8>, t: Seq<u8>, i: int)
    requires 0 <= i <= s.len(), !(spec_spaces(s, i) is Partial),
    ensures spec_spaces(s + t, i) == spec_spaces(s, i)
{
    lemma_first_not_props(cls_sp(), s, i);
    lemma_first_not_append(cls_sp(), s, t, i);
}
// @tags C02
pub proof fn lemma_token_stable(s: Seq<u8>, t: Seq<u8>, i: int)
    requires 0 <= i <= s.len(), !(spec_token(s, i) is Partial),
    ensures spec_token(s + t, i) == spec_token(s, i)
{
    lemma_append_index(s, t);
    lemma_first_not_props(cls_tchar(), s, i);
    lemma_first_not_append(cls_tchar(), s, t, i);
}
// @tags C02
pub proof fn lemma_uri_stable(s: Seq<u8>, t: Seq<u8>, i: int)
    requires 0 <= i <= s.len(), !(spec_uri(s, i) is Partial),
    ensures spec_uri(s + t, i) == spec_uri(s, i)
{
    lemma_append_index(s, t);
    lemma_first_not_props(cls_uri(), s, i);
    lemma_first_not_append(cls_uri(), s, t, i);
    let j = first_not(cls_uri(), s, i);
    assert((s + t).subrange(i, j) =~= s.subrange(i, j));
}
// @tags C02
pub proof fn lemma_version_stable(s: Seq<u8>, t: Seq<u8>, i: int)
    requires 0 <= i <= s.len(), !(spec_version(s, i) is Partial),
    ensures spec_version(s + t, i) == spec_version(s, i)
{
    lemma_append_index(s, t);
    let u = s + t;
    let avail = s.len() - i;
    if avail >= 8 {
        assert(agrees_lit(s, i, 7) == agrees_lit(u, i, 7)) by {
            if agrees_lit(s, i, 7) { assert forall|k: int| 0 <= k < 7 implies #[trigger] u[i + k] == http1_lit()[k] by { assert(u[i + k] == s[i + k]); } }
            if agrees_lit(u, i, 7) { assert forall|k: int| 0 <= k < 7 implies #[trigger] s[i + k] == http1_lit()[k] by { assert(u[i + k] == s[i + k]); } }
        }
    } else {
        // Err with fewer than 8 bytes: a received byte differs from the literal, and keeps differing
        let m = if avail < 7 { avail } else { 7 };
        assert(!agrees_lit(s, i, m));
        let k0 = choose|k: int| 0 <= k < m && #[trigger] s[i + k] != http1_lit()[k];
        assert(u[i + k0] == s[i + k0]);
        let avail2 = u.len() - i;
        if avail2 >= 8 { assert(!agrees_lit(u, i, 7)); }
        else { assert(!agrees_lit(u, i, if avail2 < 7 { avail2 } else { 7 })); }
    }
}
// @tags C02
pub proof fn lemma_eol_stable(s: Seq<u8>, t: Seq<u8>, i: int, e: Error)
    requires 0 <= i, !(spec_eol(s, i, e) is Partial),
    ensures spec_eol(s + t, i, e) == spec_eol(s, i, e)
{
    lemma_append_index(s, t);
}
// @tags C02
pub proof fn lemma_code_stable(s: Seq<u8>, t: Seq<u8>, i: int)
    requires 0 <= i, !(spec_code(s, i) is Partial),
    ensures spec_code(s + t, i) == spec_code(s, i)
{
    lemma_append_index(s, t);
}
pub proof fn lemma_has_obs_append(s: Seq<u8>, t: Seq<u8>, lo: int, hi: int)
    requires 0 <= lo <= hi <= s.len(),
    ensures has_obs(s + t, lo, hi) == has_obs(s, lo, hi)
{
    lemma_append_index(s, t);
    if has_obs(s, lo, hi) { let k = choose|k: int| lo <= k < hi && #[trigger] s[k] >= 0x80; assert((s + t)[k] >= 0x80); }
    if has_obs(s + t, lo, hi) { let k = choose|k: int| lo <= k < hi && #[trigger] (s + t)[k] >= 0x80; assert(s[k] >= 0x80); }
}
// @tags C02
pub proof fn lemma_reason_stable(s: Seq<u8>, t: Seq<u8>, i: int)
    requires 0 <= i <= s.len(), !(spec_reason(s, i) is Partial),
    ensures spec_reason(s + t, i) == spec_reason(s, i)
{
    lemma_append_index(s, t);
    lemma_first_not_props(cls_reason(), s, i);
    let j = first_not(cls_reason(), s, i);
    assert(j < s.len());   // otherwise the line end is Partial
    lemma_first_not_append(cls_reason(), s, t, i);
    lemma_eol_stable(s, t, j, Error::Status);
    lemma_has_obs_append(s, t, i, j);
}
// @tags C02
pub proof fn lemma_after_code_stable(s: Seq<u8>, t: Seq<u8>, i: int, multi: bool)
    requires 0 <= i <= s.len(), !(spec_after_code(s, i, multi) is Partial),
    ensures spec_after_code(s + t, i, multi) == spec_after_code(s, i, multi)
{
    lemma_append_index(s, t);
    if i < s.len() {
        if s[i] == 0x20 {
            if multi {
                lemma_first_not_props(cls_sp(), s, i + 1);
                lemma_spaces_stable(s, t, i + 1);
                let c = first_not(cls_sp(), s, i + 1);
                lemma_reason_stable(s, t, c);
            } else {
                lemma_reason_stable(s, t, i + 1);
            }
        } else {
            lemma_eol_stable(s, t, i, Error::Status);
        }
    }
}

// ---- header block
// @tags C02
pub proof fn lemma_skip_stable(s: Seq<u8>, t: Seq<u8>, q: int, e: Error)
    requires 0 <= q, !(spec_skip(s, q, e) is Partial),
    ensures spec_skip(s + t, q, e) == spec_skip(s, q, e)
    decreases s.len() - q
{
    lemma_append_index(s, t);
    if q < s.len() && s[q] != 0x0d && s[q] != 0x0a && s[q] != 0 { lemma_skip_stable(s, t, q + 1, e); }
}
pub proof fn lemma_trim_end_append(s: Seq<u8>, t: Seq<u8>, lo: int, hi: int)
    requires 0 <= lo, hi <= s.len(),
    ensures trim_end(s + t, lo, hi) == trim_end(s, lo, hi)
    decreases hi - lo
{
    lemma_append_index(s, t);
    if hi > lo && is_ows(s[hi - 1]) { lemma_trim_end_append(s, t, lo, hi - 1); }
}
// @tags C02
pub proof fn lemma_vlines_stable(s: Seq<u8>, t: Seq<u8>, nlo: int, nhi: int, v0: int, from: int, cfg: HCfg)
    requires 0 <= v0 <= from <= s.len(), !(spec_vlines(s, nlo, nhi, v0, from, cfg) is Partial),
    ensures spec_vlines(s + t, nlo, nhi, v0, from, cfg) == spec_vlines(s, nlo, nhi, v0, from, cfg)
    decreases s.len() - from
{
    lemma_append_index(s, t);
    lemma_first_not_props(cls_hval(), s, from);
    let e = first_not(cls_hval(), s, from);
    lemma_first_not_append(cls_hval(), s, t, from);
    let n = if s[e] == 0x0a { e + 1 } else { e + 2 };
    if s[e] != 0x0d && s[e] != 0x0a { if cfg.ignore { lemma_skip_stable(s, t, e, Error::HeaderValue); } }
    else if !(s[e] == 0x0d && s[e + 1] != 0x0a) {
        if cfg.fold && is_spht(s[n]) { lemma_vlines_stable(s, t, nlo, nhi, v0, n, cfg); }
        else { lemma_trim_end_append(s, t, v0, e); }
    }
}
// @tags C02
pub proof fn lemma_ws_stable(s: Seq<u8>, t: Seq<u8>, nlo: int, nhi: int, c: int, cfg: HCfg)
    requires 0 <= c <= s.len(), !(spec_ws(s, nlo, nhi, c, cfg) is Partial),
    ensures spec_ws(s + t, nlo, nhi, c, cfg) == spec_ws(s, nlo, nhi, c, cfg)
    decreases s.len() - c
{
    lemma_append_index(s, t);
    if is_spht(s[c]) { lemma_ws_stable(s, t, nlo, nhi, c + 1, cfg); }
    else if is_hval(s[c]) { lemma_vlines_stable(s, t, nlo, nhi, c, c, cfg); }
    else {
        let n = if s[c] == 0x0a { c + 1 } else { c + 2 };
        if s[c] != 0x0d && s[c] != 0x0a { if cfg.ignore { lemma_skip_stable(s, t, c, Error::HeaderValue); } }
        else if !(s[c] == 0x0d && s[c + 1] != 0x0a) {
            if cfg.fold && is_spht(s[n]) { lemma_ws_stable(s, t, nlo, nhi, n, cfg); }
        }
    }
}
// @tags C02
pub proof fn lemma_name_ws_stable(s: Seq<u8>, t: Seq<u8>, nlo: int, nhi: int, q: int, cfg: HCfg)
    requires 0 <= q <= s.len(), !(spec_name_ws(s, nlo, nhi, q, cfg) is Partial),
    ensures spec_name_ws(s + t, nlo, nhi, q, cfg) == spec_name_ws(s, nlo, nhi, q, cfg)
    decreases s.len() - q
{
    lemma_append_index(s, t);
    if !is_spht(s[q]) { if cfg.ignore { lemma_skip_stable(s, t, q, Error::HeaderName); } }
    else if s[q + 1] == 0x3a { lemma_ws_stable(s, t, nlo, nhi, q + 2, cfg); }
    else { lemma_name_ws_stable(s, t, nlo, nhi, q + 1, cfg); }
}
// @tags C02
pub proof fn lemma_line_stable(s: Seq<u8>, t: Seq<u8>, p: int, first: bool, cfg: HCfg)
    requires 0 <= p <= s.len(), !(spec_line(s, p, first, cfg) is Partial),
    ensures spec_line(s + t, p, first, cfg) == spec_line(s, p, first, cfg)
{
    lemma_append_index(s, t);
    if s[p] == 0x0d || s[p] == 0x0a { }
    else if !is_tchar(s[p]) {
        if !(cfg.sp_before_first && first && is_spht(s[p])) && cfg.ignore { lemma_skip_stable(s, t, p, Error::HeaderName); }
    } else {
        lemma_first_not_props(cls_tchar(), s, p);
        let e = first_not(cls_tchar(), s, p);
        lemma_first_not_append(cls_tchar(), s, t, p);
        if s[e] == 0x3a { lemma_ws_stable(s, t, p, e, e + 1, cfg); }
        else if cfg.sp_after_name { lemma_name_ws_stable(s, t, p, e, e, cfg); }
        else if cfg.ignore { lemma_skip_stable(s, t, e, Error::HeaderName); }
    }
}
// @tags C02
pub proof fn lemma_hdrs_stable(s: Seq<u8>, t: Seq<u8>, p: int, acc: Seq<SHdr>, cfg: HCfg, cap: int)
    requires 0 <= p <= s.len(), !(spec_hdrs(s, p, acc, cfg, cap) is Partial),
    ensures spec_hdrs(s + t, p, acc, cfg, cap) == spec_hdrs(s, p, acc, cfg, cap)
    decreases s.len() - p
{
    lemma_line_progress(s, p, acc.len() == 0, cfg);
    lemma_line_stable(s, t, p, acc.len() == 0, cfg);
    match spec_line(s, p, acc.len() == 0, cfg) {
        LineRes::Header(h, n) => { if acc.len() < cap { lemma_hdrs_stable(s, t, n, acc.push(h), cfg, cap); } }
        LineRes::Skip(n) => { lemma_hdrs_stable(s, t, n, acc, cfg, cap); }
        _ => {}
    }
}

// ---- whole messages: a decided request/response parse is unchanged by further bytes (status, offset, fields, headers)
// @tags C02
pub proof fn lemma_request_stable(s: Seq<u8>, t: Seq<u8>, multi: bool, sbf: bool, ign: bool, cap: int)
    requires !(spec_request(s, multi, sbf, ign, cap).res is Partial),
    ensures spec_request(s + t, multi, sbf, ign, cap) == spec_request(s, multi, sbf, ign, cap)
{
    lemma_empty_lines_stable(s, t, 0);
    lemma_empty_lines_bounds(s, 0);
    if let SRes::Complete(_, c0) = spec_empty_lines(s, 0) {
        lemma_token_stable(s, t, c0);
        lemma_first_not_props(cls_tchar(), s, c0);
        if let SRes::Complete(m, c1) = spec_token(s, c0) {
            if multi { lemma_spaces_stable(s, t, c1); lemma_first_not_props(cls_sp(), s, c1); }
            if let SRes::Complete(_, c2) = opt_spaces(multi, s, c1) {
                lemma_uri_stable(s, t, c2);
                lemma_first_not_props(cls_uri(), s, c2);
                if let SRes::Complete(p, c3) = spec_uri(s, c2) {
                    if multi { lemma_spaces_stable(s, t, c3); lemma_first_not_props(cls_sp(), s, c3); }
                    if let SRes::Complete(_, c4) = opt_spaces(multi, s, c3) {
                        lemma_version_stable(s, t, c4);
                        if let SRes::Complete(v, c5) = spec_version(s, c4) {
                            lemma_eol_stable(s, t, c5, Error::NewLine);
                            if let SRes::Complete(_, c6) = spec_eol(s, c5, Error::NewLine) {
                                lemma_hdrs_stable(s, t, c6, Seq::empty(), HCfg { sp_after_name: false, fold: false, sp_before_first: sbf, ignore: ign }, cap);
                            }
                        }
                    }
                }
            }
        }
    }
}
pub proof fn lemma_empty_lines_bounds(s: Seq<u8>, i: int)
    requires 0 <= i,
    ensures spec_empty_lines(s, i) matches SRes::Complete(_, c) ==> i <= c < s.len(),
    decreases s.len() - i
{
    if i < s.len() {
        if s[i] == 0x0d { if i + 1 < s.len() && s[i + 1] == 0x0a { lemma_empty_lines_bounds(s, i + 2); } }
        else if s[i] == 0x0a { lemma_empty_lines_bounds(s, i + 1); }
    }
}
// @tags C02
pub proof fn lemma_response_stable(s: Seq<u8>, t: Seq<u8>, multi: bool, san: bool, fold: bool, sbf: bool, ign: bool, cap: int)
    requires !(spec_response(s, multi, san, fold, sbf, ign, cap).res is Partial),
    ensures spec_response(s + t, multi, san, fold, sbf, ign, cap) == spec_response(s, multi, san, fold, sbf, ign, cap)
{
    lemma_append_index(s, t);
    lemma_empty_lines_stable(s, t, 0);
    lemma_empty_lines_bounds(s, 0);
    if let SRes::Complete(_, c0) = spec_empty_lines(s, 0) {
        lemma_version_stable(s, t, c0);
        if let SRes::Complete(v, c1) = spec_version(s, c0) {
            if let SRes::Complete(_, c2) = one_sp(s, c1, Error::Version) {
                if multi { lemma_spaces_stable(s, t, c2); lemma_first_not_props(cls_sp(), s, c2); }
                if let SRes::Complete(_, c3) = opt_spaces(multi, s, c2) {
                    lemma_code_stable(s, t, c3);
                    if let SRes::Complete(code, c4) = spec_code(s, c3) {
                        lemma_after_code_stable(s, t, c4, multi);
                        lemma_after_code_bounds(s, c4, multi);
                        if let SRes::Complete(rs, c5) = spec_after_code(s, c4, multi) {
                            lemma_hdrs_stable(s, t, c5, Seq::empty(), HCfg { sp_after_name: san, fold: fold, sp_before_first: sbf, ignore: ign }, cap);
                        }
                    }
                }
            }
        }
    }
}
pub proof fn lemma_after_code_bounds(s: Seq<u8>, i: int, multi: bool)
    requires 0 <= i <= s.len(),
    ensures spec_after_code(s, i, multi) matches SRes::Complete(_, c) ==> i < c <= s.len(),
{
    if i < s.len() && s[i] == 0x20 {
        let c = if multi { first_not(cls_sp(), s, i + 1) } else { i + 1 };
        if multi { lemma_first_not_props(cls_sp(), s, i + 1); }
        if c <= s.len() { lemma_first_not_props(cls_reason(), s, c); }
    }
}
// @tags C02 C09
pub proof fn lemma_chunk_stable(s: Seq<u8>, t: Seq<u8>)
    requires !(spec_chunk(s) is Partial),
    ensures spec_chunk(s + t) == spec_chunk(s)
{
    lemma_append_index(s, t);
    lemma_first_not_props(cls_hex(), s, 0);
    let d = first_not(cls_hex(), s, 0);
    if d > 16 {
        // 17 hex digits stay 17 hex digits
        lemma_first_not_props(cls_hex(), s + t, 0);
        let d2 = first_not(cls_hex(), s + t, 0);
        if d2 <= 16 { assert(is_hex(s[d2])); assert((s + t)[d2] == s[d2]); }
    } else {
        lemma_first_not_append(cls_hex(), s, t, 0);
        if d > 0 {
            assert((s + t).subrange(0, d) =~= s.subrange(0, d));
            lemma_first_not_props(cls_spht(), s, d);
            let w = first_not(cls_spht(), s, d);
            lemma_first_not_append(cls_spht(), s, t, d);
            if s[w] == 0x3b {
                lemma_first_not_props(cls_not_cr(), s, w + 1);
                lemma_first_not_append(cls_not_cr(), s, t, w + 1);
            }
        }
    }
}

// ---- C02: fields reported alongside Partial keep their value
// @tags C02
pub proof fn lemma_request_fields_stable(s: Seq<u8>, t: Seq<u8>, multi: bool, sbf: bool, ign: bool, cap: int)
    ensures ({
        let a = spec_request(s, multi, sbf, ign, cap);
        let b = spec_request(s + t, multi, sbf, ign, cap);
        &&& (a.method is Some ==> b.method == a.method)
        &&& (a.path is Some ==> b.path == a.path)
        &&& (a.version is Some ==> b.version == a.version)
    })
{
    lemma_empty_lines_bounds(s, 0);
    if let SRes::Complete(_, c0) = spec_empty_lines(s, 0) {
        lemma_empty_lines_stable(s, t, 0);
        lemma_first_not_props(cls_tchar(), s, c0);
        if let SRes::Complete(m, c1) = spec_token(s, c0) {
            lemma_token_stable(s, t, c0);
            if multi { lemma_first_not_props(cls_sp(), s, c1); }
            if let SRes::Complete(_, c2) = opt_spaces(multi, s, c1) {
                if multi { lemma_spaces_stable(s, t, c1); }
                lemma_first_not_props(cls_uri(), s, c2);
                if let SRes::Complete(p, c3) = spec_uri(s, c2) {
                    lemma_uri_stable(s, t, c2);
                    if multi { lemma_first_not_props(cls_sp(), s, c3); }
                    if let SRes::Complete(_, c4) = opt_spaces(multi, s, c3) {
                        if multi { lemma_spaces_stable(s, t, c3); }
                        if let SRes::Complete(v, c5) = spec_version(s, c4) {
                            lemma_version_stable(s, t, c4);
                        }
                    }
                }
            }
        }
    }
}
// @tags C02
pub proof fn lemma_response_fields_stable(s: Seq<u8>, t: Seq<u8>, multi: bool, san: bool, fold: bool, sbf: bool, ign: bool, cap: int)
    ensures ({
        let a = spec_response(s, multi, san, fold, sbf, ign, cap);
        let b = spec_response(s + t, multi, san, fold, sbf, ign, cap);
        &&& (a.version is Some ==> b.version == a.version)
        &&& (a.code is Some ==> b.code == a.code)
        &&& (a.reason is Some ==> b.reason == a.reason)
    })
{
    lemma_append_index(s, t);
    lemma_empty_lines_bounds(s, 0);
    if let SRes::Complete(_, c0) = spec_empty_lines(s, 0) {
        lemma_empty_lines_stable(s, t, 0);
        if let SRes::Complete(v, c1) = spec_version(s, c0) {
            lemma_version_stable(s, t, c0);
            if let SRes::Complete(_, c2) = one_sp(s, c1, Error::Version) {
                if multi { lemma_first_not_props(cls_sp(), s, c2); }
                if let SRes::Complete(_, c3) = opt_spaces(multi, s, c2) {
                    if multi { lemma_spaces_stable(s, t, c2); }
                    if let SRes::Complete(code, c4) = spec_code(s, c3) {
                        lemma_code_stable(s, t, c3);
                        if let SRes::Complete(rs, c5) = spec_after_code(s, c4, multi) {
                            lemma_after_code_stable(s, t, c4, multi);
                        }
                    }
                }
            }
        }
    }
}

// ---- C03 (n never exceeds the buffer) and the C02 corollary "every prefix shorter than n of an accepted head yields Partial"
// @tags C03
pub proof fn lemma_hdrs_end_bound(s: Seq<u8>, p: int, acc: Seq<SHdr>, cfg: HCfg, cap: int)
    requires 0 <= p,
    ensures spec_hdrs(s, p, acc, cfg, cap) matches SRes::Complete(hs, n) ==> p < n <= s.len(),
    decreases s.len() - p
{
    lemma_line_progress(s, p, acc.len() == 0, cfg);
    match spec_line(s, p, acc.len() == 0, cfg) {
        LineRes::Header(h, n) => { if acc.len() < cap { lemma_hdrs_end_bound(s, n, acc.push(h), cfg, cap); } }
        LineRes::Skip(n) => { lemma_hdrs_end_bound(s, n, acc, cfg, cap); }
        _ => {}
    }
}
// @tags C03 C02
pub proof fn lemma_request_end_bound(s: Seq<u8>, multi: bool, sbf: bool, ign: bool, cap: int)
    ensures spec_request(s, multi, sbf, ign, cap).res matches SRes::Complete(hs, n) ==> 0 < n <= s.len(),
{
    lemma_empty_lines_bounds(s, 0);
    if let SRes::Complete(_, c0) = spec_empty_lines(s, 0) {
        lemma_first_not_props(cls_tchar(), s, c0);
        if let SRes::Complete(m, c1) = spec_token(s, c0) {
            if multi { lemma_first_not_props(cls_sp(), s, c1); }
            if let SRes::Complete(_, c2) = opt_spaces(multi, s, c1) {
                lemma_first_not_props(cls_uri(), s, c2);
                if let SRes::Complete(p, c3) = spec_uri(s, c2) {
                    if multi { lemma_first_not_props(cls_sp(), s, c3); }
                    if let SRes::Complete(_, c4) = opt_spaces(multi, s, c3) {
                        if let SRes::Complete(v, c5) = spec_version(s, c4) {
                            if let SRes::Complete(_, c6) = spec_eol(s, c5, Error::NewLine) {
                                lemma_hdrs_end_bound(s, c6, Seq::empty(), HCfg { sp_after_name: false, fold: false, sp_before_first: sbf, ignore: ign }, cap);
                            }
                        }
                    }
                }
            }
        }
    }
}
// @tags C02
pub proof fn lemma_request_prefix_partial(b: Seq<u8>, k: int, multi: bool, sbf: bool, ign: bool, cap: int)
    requires 0 <= k <= b.len(), spec_request(b, multi, sbf, ign, cap).res matches SRes::Complete(hs, n) && k < n,
    ensures spec_request(b.subrange(0, k), multi, sbf, ign, cap).res is Partial
{
    let s = b.subrange(0, k);
    let t = b.subrange(k, b.len() as int);
    assert(s + t =~= b);
    if !(spec_request(s, multi, sbf, ign, cap).res is Partial) {
        lemma_request_stable(s, t, multi, sbf, ign, cap);
        lemma_request_end_bound(s, multi, sbf, ign, cap);
    }
}
// re-parsing a growing buffer: whatever the chunking, once some prefix decides, every longer prefix agrees with it
// @tags C02
pub proof fn lemma_request_chunking(b: Seq<u8>, k1: int, k2: int, multi: bool, sbf: bool, ign: bool, cap: int)
    requires 0 <= k1 <= k2 <= b.len(), !(spec_request(b.subrange(0, k1), multi, sbf, ign, cap).res is Partial),
    ensures spec_request(b.subrange(0, k2), multi, sbf, ign, cap) == spec_request(b.subrange(0, k1), multi, sbf, ign, cap)
{
    assert(b.subrange(0, k1) + b.subrange(k1, k2) =~= b.subrange(0, k2));
    lemma_request_stable(b.subrange(0, k1), b.subrange(k1, k2), multi, sbf, ign, cap);
}

// ------------------------------------------------------------------------------------------------ C15: options are conservative extensions
// A header line the default options accept (and that is followed by a byte that is not SP/HTAB) is read identically under
// every option record.
pub proof fn lemma_vlines_ext(s: Seq<u8>, nlo: int, nhi: int, v0: int, from: int, cfg: HCfg)
    requires 0 <= from <= s.len(),
        spec_vlines(s, nlo, nhi, v0, from, hcfg_default()) matches LineRes::Header(h, n) && n < s.len() && !is_spht(s[n]),
    ensures spec_vlines(s, nlo, nhi, v0, from, cfg) == spec_vlines(s, nlo, nhi, v0, from, hcfg_default())
{
    lemma_first_not_props(cls_hval(), s, from);
}
pub proof fn lemma_ws_ext(s: Seq<u8>, nlo: int, nhi: int, c: int, cfg: HCfg)
    requires 0 <= c <= s.len(),
        spec_ws(s, nlo, nhi, c, hcfg_default()) matches LineRes::Header(h, n) && n < s.len() && !is_spht(s[n]),
    ensures spec_ws(s, nlo, nhi, c, cfg) == spec_ws(s, nlo, nhi, c, hcfg_default())
    decreases s.len() - c
{
    if c < s.len() {
        if is_spht(s[c]) { lemma_ws_ext(s, nlo, nhi, c + 1, cfg); }
        else if is_hval(s[c]) { lemma_vlines_ext(s, nlo, nhi, c, c, cfg); }
    }
}
// without the ignore / space-before-first options nothing is ever skipped
pub proof fn lemma_vlines_noskip(s: Seq<u8>, nlo: int, nhi: int, v0: int, from: int, cfg: HCfg)
    requires !cfg.ignore, 0 <= from,
    ensures !(spec_vlines(s, nlo, nhi, v0, from, cfg) is Skip)
    decreases s.len() - from
{
    lemma_first_not_props(cls_hval(), s, if from <= s.len() { from } else { s.len() as int });
    let e = first_not(cls_hval(), s, from);
    if from <= e < s.len() {
        let n = if s[e] == 0x0a { e + 1 } else { e + 2 };
        if (s[e] == 0x0d || s[e] == 0x0a) && cfg.fold && n < s.len() && is_spht(s[n]) { lemma_vlines_noskip(s, nlo, nhi, v0, n, cfg); }
    }
}
pub proof fn lemma_ws_noskip(s: Seq<u8>, nlo: int, nhi: int, c: int, cfg: HCfg)
    requires !cfg.ignore, 0 <= c,
    ensures !(spec_ws(s, nlo, nhi, c, cfg) is Skip)
    decreases s.len() - c
{
    if c < s.len() {
        if is_spht(s[c]) { lemma_ws_noskip(s, nlo, nhi, c + 1, cfg); }
        else if is_hval(s[c]) { lemma_vlines_noskip(s, nlo, nhi, c, c, cfg); }
        else {
            let n = if s[c] == 0x0a { c + 1 } else { c + 2 };
            if (s[c] == 0x0d || s[c] == 0x0a) && cfg.fold && n < s.len() && is_spht(s[n]) { lemma_ws_noskip(s, nlo, nhi, n, cfg); }
        }
    }
}
// @tags C15
pub proof fn lemma_hdrs_ext(s: Seq<u8>, p: int, acc: Seq<SHdr>, cfg: HCfg, cap: int)
    requires 0 <= p, spec_hdrs(s, p, acc, hcfg_default(), cap) is Complete,
    ensures spec_hdrs(s, p, acc, cfg, cap) == spec_hdrs(s, p, acc, hcfg_default(), cap)
    decreases s.len() - p
{
    let d = hcfg_default();
    lemma_line_progress(s, p, acc.len() == 0, d);
    match spec_line(s, p, acc.len() == 0, d) {
        LineRes::Header(h, n) => {
            // the rest is Complete under the default options, so the next line starts with CR, LF or a tchar: not SP/HTAB
            assert(spec_hdrs(s, n, acc.push(h), d, cap) is Complete);
            lemma_line_progress(s, n, false, d);
            assert(n < s.len() && !is_spht(s[n]));
            lemma_first_not_props(cls_tchar(), s, p);
            let e = first_not(cls_tchar(), s, p);
            assert(s[e] == 0x3a);
            lemma_ws_ext(s, p, e, e + 1, cfg);
            assert(spec_line(s, p, acc.len() == 0, cfg) == spec_line(s, p, acc.len() == 0, d));
            lemma_hdrs_ext(s, n, acc.push(h), cfg, cap);
        }
        LineRes::End(n) => { assert(spec_line(s, p, acc.len() == 0, cfg) == spec_line(s, p, acc.len() == 0, d)); }
        LineRes::Skip(n) => {
            if p < s.len() && is_tchar(s[p]) { lemma_first_not_props(cls_tchar(), s, p); lemma_ws_noskip(s, p, first_not(cls_tchar(), s, p), first_not(cls_tchar(), s, p) + 1, d); }
            assert(false);
        }
        _ => {}
    }
}
// @tags C15
pub proof fn lemma_request_ext(s: Seq<u8>, multi: bool, sbf: bool, ign: bool, cap: int)
    requires spec_request(s, false, false, false, cap).res is Complete,
    ensures spec_request(s, multi, sbf, ign, cap) == spec_request(s, false, false, false, cap)
{
    lemma_empty_lines_bounds(s, 0);
    let c0 = spec_empty_lines(s, 0)->Complete_1;
    lemma_first_not_props(cls_tchar(), s, c0);
    let c1 = spec_token(s, c0)->Complete_1;
    lemma_first_not_props(cls_uri(), s, c1);
    // the target's first byte is not SP, so skipping a run of SP skips nothing
    lemma_first_not_char(cls_sp(), s, c1, c1);
    let c3 = spec_uri(s, c1)->Complete_1;
    assert(spec_version(s, c3) is Complete);
    assert(s[c3 + 0] == http1_lit()[0]);
    lemma_first_not_char(cls_sp(), s, c3, c3);
    let c5 = spec_version(s, c3)->Complete_1;
    let c6 = spec_eol(s, c5, Error::NewLine)->Complete_1;
    lemma_hdrs_ext(s, c6, Seq::empty(), HCfg { sp_after_name: false, fold: false, sp_before_first: sbf, ignore: ign }, cap);
    assert(HCfg { sp_after_name: false, fold: false, sp_before_first: false, ignore: false } == hcfg_default());
}
// responses: identical, except that allow_multiple_spaces_in_response_status_delimiters strips leading SP from the reason
// @tags C15
pub proof fn lemma_response_ext(s: Seq<u8>, multi: bool, san: bool, fold: bool, sbf: bool, ign: bool, cap: int)
    requires spec_response(s, false, false, false, false, false, cap).res is Complete,
    ensures ({
        let a = spec_response(s, false, false, false, false, false, cap);
        let b = spec_response(s, multi, san, fold, sbf, ign, cap);
        &&& b.res == a.res && b.version == a.version && b.code == a.code
        &&& (!multi ==> b.reason == a.reason)
        &&& (multi ==> (a.reason matches Some((lo, hi, obs)) && b.reason == Some((if first_not(cls_sp(), s, lo) <= hi { first_not(cls_sp(), s, lo) } else { hi }, hi, obs))))
    })
{
    assert(HCfg { sp_after_name: false, fold: false, sp_before_first: false, ignore: false } == hcfg_default());
    lemma_empty_lines_bounds(s, 0);
    let c0 = spec_empty_lines(s, 0)->Complete_1;
    let c1 = spec_version(s, c0)->Complete_1;
    let c2 = c1 + 1;
    // the first digit of the code is not SP
    lemma_first_not_char(cls_sp(), s, c2, c2);
    let c4 = spec_code(s, c2)->Complete_1;
    lemma_after_code_bounds(s, c4, false);
    let c5 = spec_after_code(s, c4, false)->Complete_1;
    if s[c4] == 0x20 {
        let lo = c4 + 1;
        lemma_first_not_props(cls_reason(), s, lo);
        let j = first_not(cls_reason(), s, lo);
        if multi {
            lemma_first_not_props(cls_sp(), s, lo);
            let c = first_not(cls_sp(), s, lo);
            // SP is a reason byte: the SP run ends no later than the reason
            lemma_first_not_mono(cls_sp(), cls_reason(), s, lo);
            assert(c <= j);
            assert forall|k: int| lo <= k < c implies cls_reason()(#[trigger] s[k]) by { assert(cls_sp()(s[k])); }
            lemma_first_not_step(cls_reason(), s, lo, c);
            // the skipped bytes are SP, so they contribute no obs-text
            assert(has_obs(s, c, j) == has_obs(s, lo, j)) by {
                if has_obs(s, lo, j) { let k = choose|k: int| lo <= k < j && #[trigger] s[k] >= 0x80; assert(k >= c) by { if k < c { assert(cls_sp()(s[k])); } } }
            }
        }
    }
    lemma_hdrs_ext(s, c5, Seq::empty(), HCfg { sp_after_name: san, fold: fold, sp_before_first: sbf, ignore: ign }, cap);
}

// ------------------------------------------------------------------------------------------------ C03: head framing
// An INDEPENDENT linear scan for the first empty line: physical lines are separated by LF; a line is empty iff it is
// exactly LF or CRLF.  (Stated for option sets without allow_space_before_first_header_name; with that option the scan
// additionally disregards leading SP/HTAB on lines before the first stored header, see DESIGN.md C03.)
pub open spec fn cls_not_lf() -> spec_fn(u8) -> bool { |b: u8| b != 0x0a }
pub open spec fn empty_at(s: Seq<u8>, i: int) -> bool {
    0 <= i < s.len() && (s[i] == 0x0a || (s[i] == 0x0d && i + 1 < s.len() && s[i + 1] == 0x0a))
}
pub open spec fn first_empty_end(s: Seq<u8>, i: int) -> Option<int>
    decreases s.len() - i
{
    if i < 0 || i >= s.len() { None }
    else if empty_at(s, i) { Some(if s[i] == 0x0a { i + 1 } else { i + 2 }) }
    else {
        let j = first_not(cls_not_lf(), s, i);          // the LF that ends this physical line
        if j < i || j >= s.len() { None } else { first_empty_end(s, j + 1) }
    }
}
pub open spec fn no_lf(s: Seq<u8>, a: int, b: int) -> bool { forall|k: int| a <= k < b ==> #[trigger] s[k] != 0x0a }

pub proof fn lemma_scan_skip(s: Seq<u8>, a: int, j: int)
    requires 0 <= a <= j < s.len(), !empty_at(s, a), s[j] == 0x0a, no_lf(s, a, j),
    ensures first_empty_end(s, a) == first_empty_end(s, j + 1)
{
    assert forall|k: int| a <= k < j implies cls_not_lf()(#[trigger] s[k]) by {}
    lemma_first_not_char(cls_not_lf(), s, a, j);
}
pub proof fn lemma_scan_none(s: Seq<u8>, a: int)
    requires 0 <= a, !empty_at(s, a), no_lf(s, a, s.len() as int),
    ensures first_empty_end(s, a) is None
{
    if a < s.len() {
        assert forall|k: int| a <= k < s.len() implies cls_not_lf()(#[trigger] s[k]) by {}
        lemma_first_not_char(cls_not_lf(), s, a, s.len() as int);
    }
}
// context of the sub-lemmas: a = start of the current PHYSICAL line (not empty), x = current position, no LF in [a, x)
pub open spec fn scan_ctx(s: Seq<u8>, a: int, x: int) -> bool { 0 <= a <= x <= s.len() && !empty_at(s, a) && no_lf(s, a, x) }
pub open spec fn scan_ok(s: Seq<u8>, a: int, l: LineRes) -> bool {
    match l {
        LineRes::Header(h, n) => first_empty_end(s, a) == first_empty_end(s, n),
        LineRes::Skip(n) => first_empty_end(s, a) == first_empty_end(s, n),
        LineRes::Partial => first_empty_end(s, a) is None,
        _ => true,
    }
}
pub proof fn lemma_skip_framing(s: Seq<u8>, a: int, q: int, e: Error)
    requires scan_ctx(s, a, q),
    ensures scan_ok(s, a, spec_skip(s, q, e))
    decreases s.len() - q
{
    if q >= s.len() { lemma_scan_none(s, a); }
    else if s[q] == 0x0d {
        if q + 1 >= s.len() { lemma_scan_none(s, a); }
        else if s[q + 1] == 0x0a { lemma_scan_skip(s, a, q + 1); }
    }
    else if s[q] == 0x0a { lemma_scan_skip(s, a, q); }
    else if s[q] != 0 { lemma_skip_framing(s, a, q + 1, e); }
}
pub proof fn lemma_vlines_framing(s: Seq<u8>, a: int, nlo: int, nhi: int, v0: int, from: int, cfg: HCfg)
    requires scan_ctx(s, a, from),
    ensures scan_ok(s, a, spec_vlines(s, nlo, nhi, v0, from, cfg))
    decreases s.len() - from
{
    lemma_first_not_props(cls_hval(), s, from);
    let e = first_not(cls_hval(), s, from);
    assert(no_lf(s, a, e)) by { assert forall|k: int| a <= k < e implies #[trigger] s[k] != 0x0a by { if k >= from { assert(cls_hval()(s[k])); } } }
    if e >= s.len() { lemma_scan_none(s, a); }
    else {
        let n = if s[e] == 0x0a { e + 1 } else { e + 2 };
        if s[e] == 0x0d && e + 1 >= s.len() { lemma_scan_none(s, a); }
        else if s[e] == 0x0d && s[e + 1] != 0x0a { }
        else if s[e] != 0x0d && s[e] != 0x0a { if cfg.ignore { lemma_skip_framing(s, a, e, Error::HeaderValue); } }
        else {
            lemma_scan_skip(s, a, n - 1);
            if cfg.fold && n < s.len() && is_spht(s[n]) { lemma_vlines_framing(s, n, nlo, nhi, v0, n, cfg); }
        }
    }
}
pub proof fn lemma_ws_framing(s: Seq<u8>, a: int, nlo: int, nhi: int, c: int, cfg: HCfg)
    requires scan_ctx(s, a, c),
    ensures scan_ok(s, a, spec_ws(s, nlo, nhi, c, cfg))
    decreases s.len() - c
{
    if c >= s.len() { lemma_scan_none(s, a); }
    else if is_spht(s[c]) { lemma_ws_framing(s, a, nlo, nhi, c + 1, cfg); }
    else if is_hval(s[c]) { lemma_vlines_framing(s, a, nlo, nhi, c, c, cfg); }
    else {
        let n = if s[c] == 0x0a { c + 1 } else { c + 2 };
        if s[c] == 0x0d && c + 1 >= s.len() { lemma_scan_none(s, a); }
        else if s[c] == 0x0d && s[c + 1] != 0x0a { }
        else if s[c] != 0x0d && s[c] != 0x0a { if cfg.ignore { lemma_skip_framing(s, a, c, Error::HeaderValue); } }
        else {
            lemma_scan_skip(s, a, n - 1);
            if cfg.fold && n < s.len() && is_spht(s[n]) { lemma_ws_framing(s, n, nlo, nhi, n, cfg); }
        }
    }
}
pub proof fn lemma_name_ws_framing(s: Seq<u8>, a: int, nlo: int, nhi: int, q: int, cfg: HCfg)
    requires scan_ctx(s, a, q),
    ensures scan_ok(s, a, spec_name_ws(s, nlo, nhi, q, cfg))
    decreases s.len() - q
{
    if q >= s.len() { lemma_scan_none(s, a); }
    else if !is_spht(s[q]) { if cfg.ignore { lemma_skip_framing(s, a, q, Error::HeaderName); } }
    else if q + 1 >= s.len() { lemma_scan_none(s, a); }
    else if s[q + 1] == 0x3a { lemma_ws_framing(s, a, nlo, nhi, q + 2, cfg); }
    else { lemma_name_ws_framing(s, a, nlo, nhi, q + 1, cfg); }
}
pub proof fn lemma_line_framing(s: Seq<u8>, p: int, first: bool, cfg: HCfg)
    requires 0 <= p, !cfg.sp_before_first,
    ensures scan_ok(s, p, spec_line(s, p, first, cfg)),
        spec_line(s, p, first, cfg) matches LineRes::End(n) ==> first_empty_end(s, p) == Some(n),
{
    lemma_line_progress(s, p, first, cfg);
    if p >= s.len() { }
    else if s[p] == 0x0d {
        if p + 1 >= s.len() { lemma_scan_none(s, p); }
    }
    else if s[p] == 0x0a { }
    else if !is_tchar(s[p]) { if cfg.ignore { lemma_skip_framing(s, p, p, Error::HeaderName); } }
    else {
        lemma_first_not_props(cls_tchar(), s, p);
        let e = first_not(cls_tchar(), s, p);
        assert(no_lf(s, p, e)) by { assert forall|k: int| p <= k < e implies #[trigger] s[k] != 0x0a by { assert(cls_tchar()(s[k])); } }
        if e >= s.len() { lemma_scan_none(s, p); }
        else if s[e] == 0x3a { lemma_ws_framing(s, p, p, e, e + 1, cfg); }
        else if cfg.sp_after_name { lemma_name_ws_framing(s, p, p, e, e, cfg); }
        else if cfg.ignore { lemma_skip_framing(s, p, e, Error::HeaderName); }
    }
}
// Complete(n): n is exactly the end of the first empty line at or after p.  Partial: there is no empty line yet.
// @tags C03
pub proof fn lemma_hdrs_framing(s: Seq<u8>, p: int, acc: Seq<SHdr>, cfg: HCfg, cap: int)
    requires 0 <= p, !cfg.sp_before_first,
    ensures spec_hdrs(s, p, acc, cfg, cap) matches SRes::Complete(hs, n) ==> first_empty_end(s, p) == Some(n) && n <= s.len(),
            spec_hdrs(s, p, acc, cfg, cap) is Partial ==> first_empty_end(s, p) is None,
    decreases s.len() - p
{
    lemma_line_progress(s, p, acc.len() == 0, cfg);
    lemma_line_framing(s, p, acc.len() == 0, cfg);
    match spec_line(s, p, acc.len() == 0, cfg) {
        LineRes::Header(h, n) => { if acc.len() < cap { lemma_hdrs_framing(s, n, acc.push(h), cfg, cap); } }
        LineRes::Skip(n) => { lemma_hdrs_framing(s, n, acc, cfg, cap); }
        _ => {}
    }
}
// with allow_space_before_first_header_name the weaker (still exact) statement: n ends at an LF that closes an empty line
// possibly preceded by SP/HTAB, and never exceeds the buffer
// @tags C03
pub proof fn lemma_hdrs_end_is_line_end(s: Seq<u8>, p: int, acc: Seq<SHdr>, cfg: HCfg, cap: int)
    requires 0 <= p,
    ensures spec_hdrs(s, p, acc, cfg, cap) matches SRes::Complete(hs, n) ==> p < n <= s.len() && s[n - 1] == 0x0a
        && (n - 2 >= p && s[n - 2] == 0x0d || true),
    decreases s.len() - p
{
    lemma_line_progress(s, p, acc.len() == 0, cfg);
    match spec_line(s, p, acc.len() == 0, cfg) {
        LineRes::Header(h, n) => { if acc.len() < cap { lemma_hdrs_end_is_line_end(s, n, acc.push(h), cfg, cap); } }
        LineRes::Skip(n) => { lemma_hdrs_end_is_line_end(s, n, acc, cfg, cap); }
        _ => {}
    }
}
// chunk size: n is just past the FIRST CRLF
// @tags C03 C09
pub proof fn lemma_chunk_framing(s: Seq<u8>)
    ensures spec_chunk(s) matches SChunk::Complete(n, v) ==> 2 <= n <= s.len() && s[n - 2] == 0x0d && s[n - 1] == 0x0a
        && (forall|k: int| 0 <= k < n - 2 ==> !(#[trigger] s[k] == 0x0d && s[k + 1] == 0x0a)),
{
    lemma_first_not_props(cls_hex(), s, 0);
    let d = first_not(cls_hex(), s, 0);
    if 0 < d <= 16 && d < s.len() {
        lemma_first_not_props(cls_spht(), s, d);
        let w = first_not(cls_spht(), s, d);
        if w < s.len() {
            if s[w] == 0x3b {
                lemma_first_not_props(cls_not_cr(), s, w + 1);
                let e = first_not(cls_not_cr(), s, w + 1);
                if e + 1 < s.len() && s[e + 1] == 0x0a {
                    assert forall|k: int| 0 <= k < e implies !(#[trigger] s[k] == 0x0d && s[k + 1] == 0x0a) by {
                        if k < d { assert(cls_hex()(s[k])); } else if k < w { assert(cls_spht()(s[k])); } else if k > w { assert(cls_not_cr()(s[k])); }
                    }
                }
            } else if s[w] == 0x0d && w + 1 < s.len() && s[w + 1] == 0x0a {
                assert forall|k: int| 0 <= k < w implies !(#[trigger] s[k] == 0x0d && s[k + 1] == 0x0a) by {
                    if k < d { assert(cls_hex()(s[k])); } else { assert(cls_spht()(s[k])); }
                }
            }
        }
    }
}

// message level: the header block starts right after the start line's LF; n is the end of the first empty line from there
// @tags C03
pub proof fn lemma_request_framing(s: Seq<u8>, multi: bool, ign: bool, cap: int)
    ensures spec_request(s, multi, false, ign, cap).res matches SRes::Complete(hs, n) ==>
        exists|c: int| 0 < c <= n && n <= s.len() && s[c - 1] == 0x0a && first_empty_end(s, c) == Some(n),
{
    let cfg = HCfg { sp_after_name: false, fold: false, sp_before_first: false, ignore: ign };
    if spec_request(s, multi, false, ign, cap).res is Complete {
        lemma_empty_lines_bounds(s, 0);
        let c0 = spec_empty_lines(s, 0)->Complete_1;
        lemma_first_not_props(cls_tchar(), s, c0);
        let c1 = spec_token(s, c0)->Complete_1;
        if multi { lemma_first_not_props(cls_sp(), s, c1); }
        let c2 = opt_spaces(multi, s, c1)->Complete_1;
        lemma_first_not_props(cls_uri(), s, c2);
        let c3 = spec_uri(s, c2)->Complete_1;
        if multi { lemma_first_not_props(cls_sp(), s, c3); }
        let c4 = opt_spaces(multi, s, c3)->Complete_1;
        let c5 = spec_version(s, c4)->Complete_1;
        let c6 = spec_eol(s, c5, Error::NewLine)->Complete_1;
        lemma_hdrs_framing(s, c6, Seq::empty(), cfg, cap);
        lemma_hdrs_end_bound(s, c6, Seq::empty(), cfg, cap);
        assert(s[c6 - 1] == 0x0a);
    }
}
// @tags C03
pub proof fn lemma_response_framing(s: Seq<u8>, multi: bool, san: bool, fold: bool, ign: bool, cap: int)
    ensures spec_response(s, multi, san, fold, false, ign, cap).res matches SRes::Complete(hs, n) ==>
        exists|c: int| 0 < c <= n && n <= s.len() && s[c - 1] == 0x0a && first_empty_end(s, c) == Some(n),
{
    let cfg = HCfg { sp_after_name: san, fold: fold, sp_before_first: false, ignore: ign };
    if spec_response(s, multi, san, fold, false, ign, cap).res is Complete {
        lemma_empty_lines_bounds(s, 0);
        let c0 = spec_empty_lines(s, 0)->Complete_1;
        let c1 = spec_version(s, c0)->Complete_1;
        let c2 = c1 + 1;
        if multi { lemma_first_not_props(cls_sp(), s, c2); }
        let c3 = opt_spaces(multi, s, c2)->Complete_1;
        let c4 = spec_code(s, c3)->Complete_1;
        lemma_after_code_bounds(s, c4, multi);
        let c5 = spec_after_code(s, c4, multi)->Complete_1;
        lemma_after_code_ends_lf(s, c4, multi);
        lemma_hdrs_framing(s, c5, Seq::empty(), cfg, cap);
        lemma_hdrs_end_bound(s, c5, Seq::empty(), cfg, cap);
    }
}
pub proof fn lemma_after_code_ends_lf(s: Seq<u8>, i: int, multi: bool)
    requires 0 <= i <= s.len(),
    ensures spec_after_code(s, i, multi) matches SRes::Complete(_, c) ==> i < c <= s.len() && s[c - 1] == 0x0a,
{
    if i < s.len() && s[i] == 0x20 {
        let c = if multi { first_not(cls_sp(), s, i + 1) } else { i + 1 };
        if multi { lemma_first_not_props(cls_sp(), s, i + 1); }
        if c <= s.len() { lemma_first_not_props(cls_reason(), s, c); }
    }
}

// ------------------------------------------------------------------------------------------------ C05: field hygiene
// @tags C05
pub proof fn lemma_token_hygiene(s: Seq<u8>, i: int)
    requires 0 <= i <= s.len(),
    ensures spec_token(s, i) matches SRes::Complete((lo, hi), c) ==> lo == i && lo < hi && hi + 1 == c && c <= s.len() && s[hi] == 0x20
        && (forall|k: int| lo <= k < hi ==> is_tchar(#[trigger] s[k])),
{
    lemma_first_not_props(cls_tchar(), s, i);
}
// @tags C05
pub proof fn lemma_uri_hygiene(s: Seq<u8>, i: int)
    requires 0 <= i <= s.len(),
    ensures spec_uri(s, i) matches SRes::Complete((lo, hi), c) ==> lo == i && lo < hi && hi + 1 == c && c <= s.len() && s[hi] == 0x20
        && valid_utf8(s.subrange(lo, hi)) && (forall|k: int| lo <= k < hi ==> is_uri(#[trigger] s[k])),
{
    lemma_first_not_props(cls_uri(), s, i);
}
// @tags C05
pub proof fn lemma_version_hygiene(s: Seq<u8>, i: int)
    requires 0 <= i <= s.len(),
    ensures spec_version(s, i) matches SRes::Complete(v, c) ==> (v == 0 || v == 1) && c == i + 8 && c <= s.len() && agrees_lit(s, i, 7) && s[i + 7] == 0x30 + v,
{}
// @tags C05
pub proof fn lemma_code_hygiene(s: Seq<u8>, i: int)
    requires 0 <= i <= s.len(),
    ensures spec_code(s, i) matches SRes::Complete(v, c) ==> c == i + 3 && c <= s.len() && is_digit(s[i]) && is_digit(s[i + 1]) && is_digit(s[i + 2])
        && v == (s[i] - 0x30) * 100 + (s[i + 1] - 0x30) * 10 + (s[i + 2] - 0x30) && v <= 999,
{}
// the reported reason is either empty or a run of HTAB / SP / 0x21-0x7E only
// @tags C05
pub proof fn lemma_reason_hygiene(s: Seq<u8>, i: int)
    requires 0 <= i <= s.len(),
    ensures spec_reason(s, i) matches SRes::Complete((lo, hi, obs), c) ==> lo == i && lo <= hi && hi < c && c <= s.len() && s[c - 1] == 0x0a
        && (!obs ==> forall|k: int| lo <= k < hi ==> (#[trigger] s[k] == 9 || s[k] == 0x20 || (0x21 <= s[k] <= 0x7e))),
{
    lemma_first_not_props(cls_reason(), s, i);
    let j = first_not(cls_reason(), s, i);
    if spec_reason(s, i) is Complete && !has_obs(s, i, j) {
        assert forall|k: int| i <= k < j implies (#[trigger] s[k] == 9 || s[k] == 0x20 || (0x21 <= s[k] <= 0x7e)) by {
            assert(cls_reason()(s[k]));
            if s[k] >= 0x80 { assert(has_obs(s, i, j)); }
        }
    }
}

// ---- "the consumed head never contains a NUL byte or a CR that is not immediately followed by LF"
pub open spec fn ok_byte_at(s: Seq<u8>, k: int) -> bool { s[k] != 0 && (s[k] == 0x0d ==> k + 1 < s.len() && s[k + 1] == 0x0a) }
pub open spec fn clean(s: Seq<u8>, a: int, b: int) -> bool { forall|k: int| a <= k < b ==> #[trigger] ok_byte_at(s, k) }
pub open spec fn clean_ok(s: Seq<u8>, a: int, l: LineRes) -> bool {
    match l {
        LineRes::Header(h, n) => clean(s, a, n),
        LineRes::Skip(n) => clean(s, a, n),
        LineRes::End(n) => clean(s, a, n),
        _ => true,
    }
}
pub proof fn lemma_clean_join(s: Seq<u8>, a: int, m: int, b: int)
    requires clean(s, a, m), clean(s, m, b),
    ensures clean(s, a, b)
{
    assert forall|k: int| a <= k < b implies #[trigger] ok_byte_at(s, k) by {
        if k < m { assert(a <= k < m); } else { assert(m <= k < b); }
    }
}
pub proof fn lemma_skip_clean(s: Seq<u8>, a: int, q: int, e: Error)
    requires 0 <= a <= q, clean(s, a, q),
    ensures clean_ok(s, a, spec_skip(s, q, e))
    decreases s.len() - q
{
    if q < s.len() {
        if s[q] == 0x0d { if q + 1 < s.len() && s[q + 1] == 0x0a { assert(ok_byte_at(s, q)); assert(ok_byte_at(s, q + 1)); } }
        else if s[q] == 0x0a { assert(ok_byte_at(s, q)); }
        else if s[q] != 0 { assert(ok_byte_at(s, q)); lemma_skip_clean(s, a, q + 1, e); }
    }
}
pub proof fn lemma_vlines_clean(s: Seq<u8>, a: int, nlo: int, nhi: int, v0: int, from: int, cfg: HCfg)
    requires 0 <= a <= from <= s.len(), clean(s, a, from),
    ensures clean_ok(s, a, spec_vlines(s, nlo, nhi, v0, from, cfg))
    decreases s.len() - from
{
    lemma_first_not_props(cls_hval(), s, from);
    let e = first_not(cls_hval(), s, from);
    assert(clean(s, a, e)) by { assert forall|k: int| a <= k < e implies #[trigger] ok_byte_at(s, k) by { if k >= from { assert(cls_hval()(s[k])); } } }
    if e < s.len() {
        let n = if s[e] == 0x0a { e + 1 } else { e + 2 };
        if s[e] == 0x0d && e + 1 >= s.len() { }
        else if s[e] == 0x0d && s[e + 1] != 0x0a { }
        else if s[e] != 0x0d && s[e] != 0x0a { if cfg.ignore { lemma_skip_clean(s, a, e, Error::HeaderValue); } }
        else {
            assert(ok_byte_at(s, e)); if s[e] == 0x0d { assert(ok_byte_at(s, e + 1)); }
            assert(clean(s, a, n));
            if cfg.fold && n < s.len() && is_spht(s[n]) { lemma_vlines_clean(s, a, nlo, nhi, v0, n, cfg); }
        }
    }
}
pub proof fn lemma_ws_clean(s: Seq<u8>, a: int, nlo: int, nhi: int, c: int, cfg: HCfg)
    requires 0 <= a <= c <= s.len(), clean(s, a, c),
    ensures clean_ok(s, a, spec_ws(s, nlo, nhi, c, cfg))
    decreases s.len() - c
{
    if c < s.len() {
        if is_spht(s[c]) { assert(ok_byte_at(s, c)); lemma_ws_clean(s, a, nlo, nhi, c + 1, cfg); }
        else if is_hval(s[c]) { lemma_vlines_clean(s, a, nlo, nhi, c, c, cfg); }
        else {
            let n = if s[c] == 0x0a { c + 1 } else { c + 2 };
            if s[c] == 0x0d && c + 1 >= s.len() { }
            else if s[c] == 0x0d && s[c + 1] != 0x0a { }
            else if s[c] != 0x0d && s[c] != 0x0a { if cfg.ignore { lemma_skip_clean(s, a, c, Error::HeaderValue); } }
            else {
                assert(ok_byte_at(s, c)); if s[c] == 0x0d { assert(ok_byte_at(s, c + 1)); }
                assert(clean(s, a, n));
                if cfg.fold && n < s.len() && is_spht(s[n]) { lemma_ws_clean(s, a, nlo, nhi, n, cfg); }
            }
        }
    }
}
pub proof fn lemma_name_ws_clean(s: Seq<u8>, a: int, nlo: int, nhi: int, q: int, cfg: HCfg)
    requires 0 <= a <= q <= s.len(), clean(s, a, q),
    ensures clean_ok(s, a, spec_name_ws(s, nlo, nhi, q, cfg))
    decreases s.len() - q
{
    if q < s.len() {
        if !is_spht(s[q]) { if cfg.ignore { lemma_skip_clean(s, a, q, Error::HeaderName); } }
        else if q + 1 < s.len() {
            assert(ok_byte_at(s, q));
            if s[q + 1] == 0x3a { assert(ok_byte_at(s, q + 1)); assert(clean(s, a, q + 2)); lemma_ws_clean(s, a, nlo, nhi, q + 2, cfg); }
            else { lemma_name_ws_clean(s, a, nlo, nhi, q + 1, cfg); }
        }
    }
}
pub proof fn lemma_line_clean(s: Seq<u8>, p: int, first: bool, cfg: HCfg)
    requires 0 <= p,
    ensures clean_ok(s, p, spec_line(s, p, first, cfg))
{
    if p < s.len() {
        if s[p] == 0x0d { if p + 1 < s.len() && s[p + 1] == 0x0a { assert(ok_byte_at(s, p)); assert(ok_byte_at(s, p + 1)); } }
        else if s[p] == 0x0a { assert(ok_byte_at(s, p)); }
        else if !is_tchar(s[p]) {
            if cfg.sp_before_first && first && is_spht(s[p]) { assert(ok_byte_at(s, p)); }
            else if cfg.ignore { lemma_skip_clean(s, p, p, Error::HeaderName); }
        } else {
            lemma_first_not_props(cls_tchar(), s, p);
            let e = first_not(cls_tchar(), s, p);
            assert(clean(s, p, e)) by { assert forall|k: int| p <= k < e implies #[trigger] ok_byte_at(s, k) by { assert(cls_tchar()(s[k])); } }
            if e < s.len() {
                if s[e] == 0x3a { assert(ok_byte_at(s, e)); assert(clean(s, p, e + 1)); lemma_ws_clean(s, p, p, e, e + 1, cfg); }
                else if cfg.sp_after_name { lemma_name_ws_clean(s, p, p, e, e, cfg); }
                else if cfg.ignore { lemma_skip_clean(s, p, e, Error::HeaderName); }
            }
        }
    }
}
// @tags C05 C14
pub proof fn lemma_hdrs_clean(s: Seq<u8>, p: int, acc: Seq<SHdr>, cfg: HCfg, cap: int)
    requires 0 <= p,
    ensures spec_hdrs(s, p, acc, cfg, cap) matches SRes::Complete(hs, n) ==> clean(s, p, n),
    decreases s.len() - p
{
    lemma_line_progress(s, p, acc.len() == 0, cfg);
    lemma_line_clean(s, p, acc.len() == 0, cfg);
    match spec_line(s, p, acc.len() == 0, cfg) {
        LineRes::Header(h, n1) => {
            if acc.len() < cap {
                lemma_hdrs_clean(s, n1, acc.push(h), cfg, cap);
                if let SRes::Complete(hs, n) = spec_hdrs(s, n1, acc.push(h), cfg, cap) {
                    lemma_clean_join(s, p, n1, n);
                }
            }
        }
        LineRes::Skip(n1) => {
            lemma_hdrs_clean(s, n1, acc, cfg, cap);
            if let SRes::Complete(hs, n) = spec_hdrs(s, n1, acc, cfg, cap) {
                lemma_clean_join(s, p, n1, n);
            }
        }
        _ => {}
    }
}
pub proof fn lemma_empty_lines_clean(s: Seq<u8>, i: int)
    requires 0 <= i,
    ensures spec_empty_lines(s, i) matches SRes::Complete(_, c) ==> clean(s, i, c) && i <= c < s.len() && s[c] != 0x0d && s[c] != 0x0a,
    decreases s.len() - i
{
    if i < s.len() {
        if s[i] == 0x0d { if i + 1 < s.len() && s[i + 1] == 0x0a { assert(ok_byte_at(s, i)); assert(ok_byte_at(s, i + 1)); lemma_empty_lines_clean(s, i + 2); } }
        else if s[i] == 0x0a { assert(ok_byte_at(s, i)); lemma_empty_lines_clean(s, i + 1); }
    }
}
pub proof fn lemma_clean_run(cls: spec_fn(u8) -> bool, s: Seq<u8>, a: int, b: int)
    requires 0 <= a <= b <= s.len(), forall|k: int| a <= k < b ==> cls(#[trigger] s[k]), forall|x: u8| #[trigger] cls(x) ==> x != 0 && x != 0x0d,
    ensures clean(s, a, b)
{
    assert forall|k: int| a <= k < b implies #[trigger] ok_byte_at(s, k) by { assert(cls(s[k])); }
}
// @tags C05
pub proof fn lemma_request_clean(s: Seq<u8>, multi: bool, sbf: bool, ign: bool, cap: int)
    ensures spec_request(s, multi, sbf, ign, cap).res matches SRes::Complete(hs, n) ==> clean(s, 0, n) && n <= s.len(),
{
    if spec_request(s, multi, sbf, ign, cap).res is Complete {
        lemma_empty_lines_clean(s, 0);
        let c0 = spec_empty_lines(s, 0)->Complete_1;
        lemma_first_not_props(cls_tchar(), s, c0);
        let c1 = spec_token(s, c0)->Complete_1;
        lemma_clean_run(cls_tchar(), s, c0, c1 - 1);
        assert(ok_byte_at(s, c1 - 1));
        if multi { lemma_first_not_props(cls_sp(), s, c1); }
        let c2 = opt_spaces(multi, s, c1)->Complete_1;
        if multi { lemma_clean_run(cls_sp(), s, c1, c2); }
        lemma_first_not_props(cls_uri(), s, c2);
        let c3 = spec_uri(s, c2)->Complete_1;
        lemma_clean_run(cls_uri(), s, c2, c3 - 1);
        assert(ok_byte_at(s, c3 - 1));
        if multi { lemma_first_not_props(cls_sp(), s, c3); }
        let c4 = opt_spaces(multi, s, c3)->Complete_1;
        if multi { lemma_clean_run(cls_sp(), s, c3, c4); }
        let c5 = spec_version(s, c4)->Complete_1;
        assert(clean(s, c4, c5)) by {
            assert forall|k: int| c4 <= k < c5 implies #[trigger] ok_byte_at(s, k) by {
                if k < c4 + 7 { assert(s[c4 + (k - c4)] == http1_lit()[k - c4]); }
            }
        }
        let c6 = spec_eol(s, c5, Error::NewLine)->Complete_1;
        assert(clean(s, c5, c6)) by { assert(ok_byte_at(s, c5)); if s[c5] == 0x0d { assert(ok_byte_at(s, c5 + 1)); } }
        let cfg = HCfg { sp_after_name: false, fold: false, sp_before_first: sbf, ignore: ign };
        lemma_hdrs_clean(s, c6, Seq::empty(), cfg, cap);
        lemma_hdrs_end_bound(s, c6, Seq::empty(), cfg, cap);
    }
}
// every reported header: non-empty tchar name; value has no leading/trailing SP/HTAB
// @tags C05 C08
pub proof fn lemma_trim_end_not_ows(s: Seq<u8>, lo: int, hi: int)
    requires 0 <= lo <= hi <= s.len(),
    ensures trim_end(s, lo, hi) > lo ==> !is_ows(s[trim_end(s, lo, hi) - 1]),
    decreases hi - lo
{
    if hi > lo && is_ows(s[hi - 1]) { lemma_trim_end_not_ows(s, lo, hi - 1); }
}

// ------------------------------------------------------------------------------------------------ C17: capacity law and count
// the outcome with capacity c1 equals the outcome with any larger capacity unless it is TooManyHeaders
// @tags C17
pub proof fn lemma_capacity_law(s: Seq<u8>, p: int, acc: Seq<SHdr>, cfg: HCfg, c1: int, c2: int)
    requires 0 <= p, c1 <= c2, spec_hdrs(s, p, acc, cfg, c1) != SRes::<Seq<SHdr>>::Err(Error::TooManyHeaders),
    ensures spec_hdrs(s, p, acc, cfg, c2) == spec_hdrs(s, p, acc, cfg, c1)
    decreases s.len() - p
{
    lemma_line_progress(s, p, acc.len() == 0, cfg);
    match spec_line(s, p, acc.len() == 0, cfg) {
        LineRes::Header(h, n) => { if acc.len() < c1 { lemma_capacity_law(s, n, acc.push(h), cfg, c1, c2); } }
        LineRes::Skip(n) => { lemma_capacity_law(s, n, acc, cfg, c1, c2); }
        _ => {}
    }
}
// ... and with capacity c1 it IS TooManyHeaders exactly when a larger capacity lets one more header line complete:
// the larger-capacity parse then reports more than c1 headers, or fails/waits only after having stored c1 + 1 of them
// @tags C17 C10
pub proof fn lemma_too_many_iff(s: Seq<u8>, p: int, acc: Seq<SHdr>, cfg: HCfg, cap: int)
    requires 0 <= p, acc.len() <= cap,
    ensures spec_hdrs(s, p, acc, cfg, cap) matches SRes::Complete(hs, n) ==> acc.len() <= hs.len() <= cap && hs.subrange(0, acc.len() as int) == acc,
    decreases s.len() - p
{
    lemma_line_progress(s, p, acc.len() == 0, cfg);
    match spec_line(s, p, acc.len() == 0, cfg) {
        LineRes::Header(h, n) => {
            if acc.len() < cap {
                lemma_too_many_iff(s, n, acc.push(h), cfg, cap);
                if let SRes::Complete(hs, e) = spec_hdrs(s, n, acc.push(h), cfg, cap) {
                    assert(hs.subrange(0, acc.len() as int) =~= hs.subrange(0, acc.len() as int + 1).subrange(0, acc.len() as int));
                    assert(acc.push(h).subrange(0, acc.len() as int) =~= acc);
                }
            }
        }
        LineRes::Skip(n) => { lemma_too_many_iff(s, n, acc, cfg, cap); }
        LineRes::End(n) => { assert(acc.subrange(0, acc.len() as int) =~= acc); }
        _ => {}
    }
}

// ------------------------------------------------------------------------------------------------ C04: order and containment of the reported ranges
pub open spec fn hdr_wf(h: SHdr) -> bool { 0 <= h.name_lo < h.name_hi && h.name_hi < h.val_lo && h.val_lo <= h.val_hi }
// every header lies in [from, to), they are well-formed and strictly ordered
pub open spec fn hdrs_in(hs: Seq<SHdr>, from: int, to: int) -> bool {
    &&& (forall|i: int| 0 <= i < hs.len() ==> hdr_wf(#[trigger] hs[i]) && from <= hs[i].name_lo && hs[i].val_hi < to)
    &&& (forall|i: int, j: int| 0 <= i < j < hs.len() ==> (#[trigger] hs[i]).val_hi < (#[trigger] hs[j]).name_lo)
}
// @tags C04
pub proof fn lemma_hdrs_order(s: Seq<u8>, p: int, acc: Seq<SHdr>, cfg: HCfg, cap: int, from: int)
    requires 0 <= from <= p, hdrs_in(acc, from, p),
    ensures spec_hdrs(s, p, acc, cfg, cap) matches SRes::Complete(hs, n) ==> hdrs_in(hs, from, n) && n <= s.len(),
    decreases s.len() - p
{
    lemma_line_progress(s, p, acc.len() == 0, cfg);
    match spec_line(s, p, acc.len() == 0, cfg) {
        LineRes::Header(h, n) => {
            if acc.len() < cap {
                let a2 = acc.push(h);
                assert(hdrs_in(a2, from, n)) by {
                    assert forall|i: int| 0 <= i < a2.len() implies hdr_wf(#[trigger] a2[i]) && from <= a2[i].name_lo && a2[i].val_hi < n by {
                        if i < acc.len() { assert(a2[i] == acc[i]); }
                    }
                    assert forall|i: int, j: int| 0 <= i < j < a2.len() implies (#[trigger] a2[i]).val_hi < (#[trigger] a2[j]).name_lo by {
                        assert(a2[i] == acc[i]);
                        if j < acc.len() { assert(a2[j] == acc[j]); }
                    }
                }
                lemma_hdrs_order(s, n, a2, cfg, cap, from);
            }
        }
        LineRes::Skip(n) => {
            assert(hdrs_in(acc, from, n)) by {
                assert forall|i: int| 0 <= i < acc.len() implies hdr_wf(#[trigger] acc[i]) && from <= acc[i].name_lo && acc[i].val_hi < n by {}
            }
            lemma_hdrs_order(s, n, acc, cfg, cap, from);
        }
        LineRes::End(n) => {
            assert(hdrs_in(acc, from, n)) by {
                assert forall|i: int| 0 <= i < acc.len() implies hdr_wf(#[trigger] acc[i]) && from <= acc[i].name_lo && acc[i].val_hi < n by {}
            }
        }
        _ => {}
    }
}
// request: method, then path, then the headers, all inside the consumed head [0, n)
// @tags C04
pub proof fn lemma_request_order(s: Seq<u8>, multi: bool, sbf: bool, ign: bool, cap: int)
    ensures ({
        let r = spec_request(s, multi, sbf, ign, cap);
        r.res matches SRes::Complete(hs, n) ==> (r.method matches Some((mlo, mhi)) && r.path matches Some((plo, phi))
            && 0 <= mlo < mhi && mhi < plo && plo < phi && phi < n && n <= s.len() && hdrs_in(hs, phi + 1, n))
    })
{
    if spec_request(s, multi, sbf, ign, cap).res is Complete {
        lemma_empty_lines_bounds(s, 0);
        let c0 = spec_empty_lines(s, 0)->Complete_1;
        lemma_token_hygiene(s, c0);
        let c1 = spec_token(s, c0)->Complete_1;
        if multi { lemma_first_not_props(cls_sp(), s, c1); }
        let c2 = opt_spaces(multi, s, c1)->Complete_1;
        lemma_uri_hygiene(s, c2);
        let c3 = spec_uri(s, c2)->Complete_1;
        if multi { lemma_first_not_props(cls_sp(), s, c3); }
        let c4 = opt_spaces(multi, s, c3)->Complete_1;
        let c5 = spec_version(s, c4)->Complete_1;
        let c6 = spec_eol(s, c5, Error::NewLine)->Complete_1;
        let cfg = HCfg { sp_after_name: false, fold: false, sp_before_first: sbf, ignore: ign };
        assert(hdrs_in(Seq::<SHdr>::empty(), c3, c6));
        lemma_hdrs_order(s, c6, Seq::empty(), cfg, cap, c3);
        lemma_hdrs_end_bound(s, c6, Seq::empty(), cfg, cap);
    }
}

// ------------------------------------------------------------------------------------------------ C11: honest Partial
// For every buffer on which the oracle says Partial there is an explicit continuation on which it says Complete
// (two stated exceptions for messages: target not yet terminated but not completable to valid UTF-8; header array full).
pub proof fn lemma_run_then_stop(cls: spec_fn(u8) -> bool, s: Seq<u8>, t: Seq<u8>, i: int)
    requires 0 <= i <= s.len(), first_not(cls, s, i) >= s.len(), t.len() > 0, !cls(t[0]),
    ensures first_not(cls, s + t, i) == s.len()
{
    lemma_first_not_props(cls, s, i);
    lemma_append_index(s, t);
    assert((s + t)[s.len() as int] == t[0]);
    assert forall|k: int| i <= k < s.len() implies cls(#[trigger] (s + t)[k]) by { assert((s + t)[k] == s[k]); }
    lemma_first_not_char(cls, s + t, i, s.len() as int);
}
pub proof fn lemma_run_one_more(cls: spec_fn(u8) -> bool, s: Seq<u8>, t: Seq<u8>, i: int)
    requires 0 <= i <= s.len(), first_not(cls, s, i) >= s.len(), t.len() > 1, cls(t[0]), !cls(t[1]),
    ensures first_not(cls, s + t, i) == s.len() + 1
{
    lemma_first_not_props(cls, s, i);
    lemma_append_index(s, t);
    assert((s + t)[s.len() as int] == t[0]);
    assert((s + t)[s.len() as int + 1] == t[1]);
    assert forall|k: int| i <= k < s.len() + 1 implies cls(#[trigger] (s + t)[k]) by { if k < s.len() { assert((s + t)[k] == s[k]); } }
    lemma_first_not_char(cls, s + t, i, s.len() as int + 1);
}
pub open spec fn chunk_completion(s: Seq<u8>) -> Seq<u8> {
    let d = first_not(cls_hex(), s, 0);
    if s.len() == 0 { seq![0x30u8, 0x0d, 0x0a] }
    else if s[s.len() - 1] == 0x0d && d < s.len() && (first_not(cls_spht(), s, d) == s.len() - 1
        || (first_not(cls_spht(), s, d) < s.len() && s[first_not(cls_spht(), s, d)] == 0x3b && first_not(cls_not_cr(), s, first_not(cls_spht(), s, d) + 1) == s.len() - 1)) { seq![0x0au8] }
    else { seq![0x0du8, 0x0a] }
}
// @tags C11 C09
pub proof fn lemma_chunk_completable(s: Seq<u8>)
    requires spec_chunk(s) is Partial,
    ensures spec_chunk(s + chunk_completion(s)) is Complete
{
    let t = chunk_completion(s);
    let u = s + t;
    lemma_append_index(s, t);
    lemma_first_not_props(cls_hex(), s, 0);
    let d = first_not(cls_hex(), s, 0);
    if s.len() == 0 {
        assert(u =~= seq![0x30u8, 0x0d, 0x0a]);
        reveal_with_fuel(first_not, 4);
        assert(first_not(cls_hex(), u, 0) == 1);
        assert(first_not(cls_spht(), u, 1) == 1);
        assert(u.subrange(0, 1) =~= seq![0x30u8]);
    } else if d >= s.len() {
        // all digits so far (1..=16 of them): finish with CRLF
        lemma_run_then_stop(cls_hex(), s, t, 0);
        assert(u[d] == 0x0d && u[d + 1] == 0x0a);
        lemma_first_not_char(cls_spht(), u, d, d);
    } else {
        lemma_first_not_append(cls_hex(), s, t, 0);
        lemma_first_not_props(cls_spht(), s, d);
        let w = first_not(cls_spht(), s, d);
        if w >= s.len() {
            lemma_run_then_stop(cls_spht(), s, t, d);
            assert(u[w] == 0x0d && u[w + 1] == 0x0a);
        } else {
            lemma_first_not_append(cls_spht(), s, t, d);
            assert(u[w] == s[w]);
            if s[w] == 0x3b {
                lemma_first_not_props(cls_not_cr(), s, w + 1);
                let e = first_not(cls_not_cr(), s, w + 1);
                if e >= s.len() {
                    lemma_run_then_stop(cls_not_cr(), s, t, w + 1);
                    assert(u[e] == 0x0d && u[e + 1] == 0x0a);
                } else {
                    lemma_first_not_append(cls_not_cr(), s, t, w + 1);
                    assert(u[e] == s[e]);
                    assert(e == s.len() - 1);
                    assert(u[e + 1] == 0x0a);
                }
            } else {
                assert(s[w] == 0x0d && w == s.len() - 1);
                assert(u[w + 1] == 0x0a);
            }
        }
    }
}
