// =====================================================================================================
// Whole-input properties proved over the oracle (layer L).  Together with the refinement "real function == oracle"
// (contracts/*.vspec) they transfer to the real code for every buffer, configuration and capacity.
// =====================================================================================================

// ------------------------------------------------------------------------------------------------ C02: stability under append
// For every component X:  X(s, i) is Complete or Err  ==>  X(s + t, i) == X(s, i)      (t = any further bytes)

pub proof fn lemma_append_index(s: Seq<u8>, t: Seq<u8>)
    ensures forall|k: int| 0 <= k < s.len() ==> #[trigger] (s + t)[k] == s[k], (s + t).len() == s.len() + t.len(),
{}

// @tags C02
pub proof fn lemma_empty_lines_stable(s: Seq<u8>, t: Seq<u8>, i: int)
    requires 0 <= i, !(spec_empty_lines(s, i) is Partial),
    ensures spec_empty_lines(s + t, i) == spec_empty_lines(s, i)
    decreases s.len() - i
{
    lemma_append_index(s, t);
    if i < s.len() {
        if s[i] == 0x0d { if i + 1 < s.len() && s[i + 1] == 0x0a { lemma_empty_lines_stable(s, t, i + 2); } }
        else if s[i] == 0x0a { lemma_empty_lines_stable(s, t, i + 1); }
    }
}
// @tags C02
pub proof fn lemma_spaces_stable(s: Seq<u8>, t: Seq<u8>, i: int)
    requires 0 <= i <= s.len(), !(spec_spaces(s, i) is Partial),
    ensures spec_spaces(s + t, i) == spec_spaces(s, i)
{
    lemma_first_not_props(cls_sp(), s, i);
    lemma_first_not_append(cls_sp(), s, t, i);
}
// @tags C02
pub proof fn lemma_token_stable(s: Seq<u8>, t: Seq<u8>, i: int)
    requires 0 <= i <= s.len(), !(spec_token(s, i) is Partial),
    ensures spec_token(s + t, i) == spec_token(s, i)
{
    lemma_append_index(s, t);
    lemma_first_not_props(cls_tchar(), s, i);
    lemma_first_not_append(cls_tchar(), s, t, i);
}
// @tags C02
pub proof fn lemma_uri_stable(s: Seq<u8>, t: Seq<u8>, i: int)
    requires 0 <= i <= s.len(), !(spec_uri(s, i) is Partial),
    ensures spec_uri(s + t, i) == spec_uri(s, i)
{
    lemma_append_index(s, t);
    lemma_first_not_props(cls_uri(), s, i);
    lemma_first_not_append(cls_uri(), s, t, i);
    let j = first_not(cls_uri(), s, i);
    assert((s + t).subrange(i, j) =~= s.subrange(i, j));
}
// @tags C02
pub proof fn lemma_version_stable(s: Seq<u8>, t: Seq<u8>, i: int)
    requires 0 <= i <= s.len(), !(spec_version(s, i) is Partial),
    ensures spec_version(s + t, i) == spec_version(s, i)
{
    lemma_append_index(s, t);
    let u = s + t;
    let avail = s.len() - i;
    if avail >= 8 {
        assert(agrees_lit(s, i, 7) == agrees_lit(u, i, 7)) by {
            if agrees_lit(s, i, 7) { assert forall|k: int| 0 <= k < 7 implies #[trigger] u[i + k] == http1_lit()[k] by { assert(u[i + k] == s[i + k]); } }
            if agrees_lit(u, i, 7) { assert forall|k: int| 0 <= k < 7 implies #[trigger] s[i + k] == http1_lit()[k] by { assert(u[i + k] == s[i + k]); } }
        }
    } else {
        // Err with fewer than 8 bytes: a received byte differs from the literal, and keeps differing
        let m = if avail < 7 { avail } else { 7 };
        assert(!agrees_lit(s, i, m));
        let k0 = choose|k: int| 0 <= k < m && #[trigger] s[i + k] != http1_lit()[k];
        assert(u[i + k0] == s[i + k0]);
        let avail2 = u.len() - i;
        if avail2 >= 8 { assert(!agrees_lit(u, i, 7)); }
        else { assert(!agrees_lit(u, i, if avail2 < 7 { avail2 } else { 7 })); }
    }
}
// @tags C02
pub proof fn lemma_eol_stable(s: Seq<u8>, t: Seq<u8>, i: int, e: Error)
    requires 0 <= i, !(spec_eol(s, i, e) is Partial),
    ensures spec_eol(s + t, i, e) == spec_eol(s, i, e)
{
    lemma_append_index(s, t);
}
// @tags C02
pub proof fn lemma_code_stable(s: Seq<u8>, t: Seq<u8>, i: int)
    requires 0 <= i, !(spec_code(s, i) is Partial),
    ensures spec_code(s + t, i) == spec_code(s, i)
{
    lemma_append_index(s, t);
}
pub proof fn lemma_has_obs_append(s: Seq<u8>, t: Seq<u8>, lo: int, hi: int)
    requires 0 <= lo <= hi <= s.len(),
    ensures has_obs(s + t, lo, hi) == has_obs(s, lo, hi)
{
    lemma_append_index(s, t);
    if has_obs(s, lo, hi) { let k = choose|k: int| lo <= k < hi && #[trigger] s[k] >= 0x80; assert((s + t)[k] >= 0x80); }
    if has_obs(s + t, lo, hi) { let k = choose|k: int| lo <= k < hi && #[trigger] (s + t)[k] >= 0x80; assert(s[k] >= 0x80); }
}
// @tags C02
pub proof fn lemma_reason_stable(s: Seq<u8>, t: Seq<u8>, i: int)
    requires 0 <= i <= s.len(), !(spec_reason(s, i) is Partial),
    ensures spec_reason(s + t, i) == spec_reason(s, i)
{
    lemma_append_index(s, t);
    lemma_first_not_props(cls_reason(), s, i);
    let j = first_not(cls_reason(), s, i);
    assert(j < s.len());   // otherwise the line end is Partial
    lemma_first_not_append(cls_reason(), s, t, i);
    lemma_eol_stable(s, t, j, Error::Status);
    lemma_has_obs_append(s, t, i, j);
}
// @tags C02
pub proof fn lemma_after_code_stable(s: Seq<u8>, t: Seq<u8>, i: int, multi: bool)
    requires 0 <= i <= s.len(), !(spec_after_code(s, i, multi) is Partial),
    ensures spec_after_code(s + t, i, multi) == spec_after_code(s, i, multi)
{
    lemma_append_index(s, t);
    if i < s.len() {
        if s[i] == 0x20 {
            if multi {
                lemma_first_not_props(cls_sp(), s, i + 1);
                lemma_spaces_stable(s, t, i + 1);
                let c = first_not(cls_sp(), s, i + 1);
                lemma_reason_stable(s, t, c);
            } else {
                lemma_reason_stable(s, t, i + 1);
            }
        } else {
            lemma_eol_stable(s, t, i, Error::Status);
        }
    }
}

// ---- header block
// @tags C02
pub proof fn lemma_skip_stable(s: Seq<u8>, t: Seq<u8>, q: int, e: Error)
    requires 0 <= q, !(spec_skip(s, q, e) is Partial),
    ensures spec_skip(s + t, q, e) == spec_skip(s, q, e)
    decreases s.len() - q
{
    lemma_append_index(s, t);
    if q < s.len() && s[q] != 0x0d && s[q] != 0x0a && s[q] != 0 { lemma_skip_stable(s, t, q + 1, e); }
}
pub proof fn lemma_trim_end_append(s: Seq<u8>, t: Seq<u8>, lo: int, hi: int)
    requires 0 <= lo, hi <= s.len(),
    ensures trim_end(s + t, lo, hi) == trim_end(s, lo, hi)
    decreases hi - lo
{
    lemma_append_index(s, t);
    if hi > lo && is_ows(s[hi - 1]) { lemma_trim_end_append(s, t, lo, hi - 1); }
}
// @tags C02
pub proof fn lemma_vlines_stable(s: Seq<u8>, t: Seq<u8>, nlo: int, nhi: int, v0: int, from: int, cfg: HCfg)
    requires 0 <= v0 <= from <= s.len(), !(spec_vlines(s, nlo, nhi, v0, from, cfg) is Partial),
    ensures spec_vlines(s + t, nlo, nhi, v0, from, cfg) == spec_vlines(s, nlo, nhi, v0, from, cfg)
    decreases s.len() - from
{
    lemma_append_index(s, t);
    lemma_first_not_props(cls_hval(), s, from);
    let e = first_not(cls_hval(), s, from);
    lemma_first_not_append(cls_hval(), s, t, from);
    let n = if s[e] == 0x0a { e + 1 } else { e + 2 };
    if s[e] != 0x0d && s[e] != 0x0a { if cfg.ignore { lemma_skip_stable(s, t, e, Error::HeaderValue); } }
    else if !(s[e] == 0x0d && s[e + 1] != 0x0a) {
        if cfg.fold && is_spht(s[n]) { lemma_vlines_stable(s, t, nlo, nhi, v0, n, cfg); }
        else { lemma_trim_end_append(s, t, v0, e); }
    }
}
// @tags C02
pub proof fn lemma_ws_stable(s: Seq<u8>, t: Seq<u8>, nlo: int, nhi: int, c: int, cfg: HCfg)
    requires 0 <= c <= s.len(), !(spec_ws(s, nlo, nhi, c, cfg) is Partial),
    ensures spec_ws(s + t, nlo, nhi, c, cfg) == spec_ws(s, nlo, nhi, c, cfg)
    decreases s.len() - c
{
    lemma_append_index(s, t);
    if is_spht(s[c]) { lemma_ws_stable(s, t, nlo, nhi, c + 1, cfg); }
    else if is_hval(s[c]) { lemma_vlines_stable(s, t, nlo, nhi, c, c, cfg); }
    else {
        let n = if s[c] == 0x0a { c + 1 } else { c + 2 };
        if s[c] != 0x0d && s[c] != 0x0a { if cfg.ignore { lemma_skip_stable(s, t, c, Error::HeaderValue); } }
        else if !(s[c] == 0x0d && s[c + 1] != 0x0a) {
            if cfg.fold && is_spht(s[n]) { lemma_ws_stable(s, t, nlo, nhi, n, cfg); }
        }
    }
}
// @tags C02
pub proof fn lemma_name_ws_stable(s: Seq<u8>, t: Seq<u8>, nlo: int, nhi: int, q: int, cfg: HCfg)
    requires 0 <= q <= s.len(), !(spec_name_ws(s, nlo, nhi, q, cfg) is Partial),
    ensures spec_name_ws(s + t, nlo, nhi, q, cfg) == spec_name_ws(s, nlo, nhi, q, cfg)
    decreases s.len() - q
{
    lemma_append_index(s, t);
    if !is_spht(s[q]) { if cfg.ignore { lemma_skip_stable(s, t, q, Error::HeaderName); } }
    else if s[q + 1] == 0x3a { lemma_ws_stable(s, t, nlo, nhi, q + 2, cfg); }
    else { lemma_name_ws_stable(s, t, nlo, nhi, q + 1, cfg); }
}
// @tags C02
pub proof fn lemma_line_stable(s: Seq<u8>, t: Seq<u8>, p: int, first: bool, cfg: HCfg)
    requires 0 <= p <= s.len(), !(spec_line(s, p, first, cfg) is Partial),
    ensures spec_line(s + t, p, first, cfg) == spec_line(s, p, first, cfg)
{
    lemma_append_index(s, t);
    if s[p] == 0x0d || s[p] == 0x0a { }
    else if !is_tchar(s[p]) {
        if !(cfg.sp_before_first && first && is_spht(s[p])) && cfg.ignore { lemma_skip_stable(s, t, p, Error::HeaderName); }
    } else {
        lemma_first_not_props(cls_tchar(), s, p);
        let e = first_not(cls_tchar(), s, p);
        lemma_first_not_append(cls_tchar(), s, t, p);
        if s[e] == 0x3a { lemma_ws_stable(s, t, p, e, e + 1, cfg); }
        else if cfg.sp_after_name { lemma_name_ws_stable(s, t, p, e, e, cfg); }
        else if cfg.ignore { lemma_skip_stable(s, t, e, Error::HeaderName); }
    }
}
// @tags C02
pub proof fn lemma_hdrs_stable(s: Seq<u8>, t: Seq<u8>, p: int, acc: Seq<SHdr>, cfg: HCfg, cap: int)
    requires 0 <= p <= s.len(), !(spec_hdrs(s, p, acc, cfg, cap) is Partial),
    ensures spec_hdrs(s + t, p, acc, cfg, cap) == spec_hdrs(s, p, acc, cfg, cap)
    decreases s.len() - p
{
    lemma_line_progress(s, p, acc.len() == 0, cfg);
    lemma_line_stable(s, t, p, acc.len() == 0, cfg);
    match spec_line(s, p, acc.len() == 0, cfg) {
        LineRes::Header(h, n) => { if acc.len() < cap { lemma_hdrs_stable(s, t, n, acc.push(h), cfg, cap); } }
        LineRes::Skip(n) => { lemma_hdrs_stable(s, t, n, acc, cfg, cap); }
        _ => {}
    }
}

// ---- whole messages: a decided request/response parse is unchanged by further bytes (status, offset, fields, headers)
// @tags C02
pub proof fn lemma_request_stable(s: Seq<u8>, t: Seq<u8>, multi: bool, sbf: bool, ign: bool, cap: int)
    requires !(spec_request(s, multi, sbf, ign, cap).res is Partial),
    ensures spec_request(s + t, multi, sbf, ign, cap) == spec_request(s, multi, sbf, ign, cap)
{
    lemma_empty_lines_stable(s, t, 0);
    lemma_empty_lines_bounds(s, 0);
    if let SRes::Complete(_, c0) = spec_empty_lines(s, 0) {
        lemma_token_stable(s, t, c0);
        lemma_first_not_props(cls_tchar(), s, c0);
        if let SRes::Complete(m, c1) = spec_token(s, c0) {
            if multi { lemma_spaces_stable(s, t, c1); lemma_first_not_props(cls_sp(), s, c1); }
            if let SRes::Complete(_, c2) = opt_spaces(multi, s, c1) {
                lemma_uri_stable(s, t, c2);
                lemma_first_not_props(cls_uri(), s, c2);
                if let SRes::Complete(p, c3) = spec_uri(s, c2) {
                    if multi { lemma_spaces_stable(s, t, c3); lemma_first_not_props(cls_sp(), s, c3); }
                    if let SRes::Complete(_, c4) = opt_spaces(multi, s, c3) {
                        lemma_version_stable(s, t, c4);
                        if let SRes::Complete(v, c5) = spec_version(s, c4) {
                            lemma_eol_stable(s, t, c5, Error::NewLine);
                            if let SRes::Complete(_, c6) = spec_eol(s, c5, Error::NewLine) {
                                lemma_hdrs_stable(s, t, c6, Seq::empty(), HCfg { sp_after_name: false, fold: false, sp_before_first: sbf, ignore: ign }, cap);
                            }
                        }
                    }
                }
            }
        }
    }
}
pub proof fn lemma_empty_lines_bounds(s: Seq<u8>, i: int)
    requires 0 <= i,
    ensures spec_empty_lines(s, i) matches SRes::Complete(_, c) ==> i <= c < s.len(),
    decreases s.len() - i
{
    if i < s.len() {
        if s[i] == 0x0d { if i + 1 < s.len() && s[i + 1] == 0x0a { lemma_empty_lines_bounds(s, i + 2); } }
        else if s[i] == 0x0a { lemma_empty_lines_bounds(s, i + 1); }
    }
}
// @tags C02
pub proof fn lemma_response_stable(s: Seq<u8>, t: Seq<u8>, multi: bool, san: bool, fold: bool, sbf: bool, ign: bool, cap: int)
    requires !(spec_response(s, multi, san, fold, sbf, ign, cap).res is Partial),
    ensures spec_response(s + t, multi, san, fold, sbf, ign, cap) == spec_response(s, multi, san, fold, sbf, ign, cap)
{
    lemma_append_index(s, t);
    lemma_empty_lines_stable(s, t, 0);
    lemma_empty_lines_bounds(s, 0);
    if let SRes::Complete(_, c0) = spec_empty_lines(s, 0) {
        lemma_version_stable(s, t, c0);
        if let SRes::Complete(v, c1) = spec_version(s, c0) {
            if let SRes::Complete(_, c2) = one_sp(s, c1, Error::Version) {
                if multi { lemma_spaces_stable(s, t, c2); lemma_first_not_props(cls_sp(), s, c2); }
                if let SRes::Complete(_, c3) = opt_spaces(multi, s, c2) {
                    lemma_code_stable(s, t, c3);
                    if let SRes::Complete(code, c4) = spec_code(s, c3) {
                        lemma_after_code_stable(s, t, c4, multi);
                        lemma_after_code_bounds(s, c4, multi);
                        if let SRes::Complete(rs, c5) = spec_after_code(s, c4, multi) {
                            lemma_hdrs_stable(s, t, c5, Seq::empty(), HCfg { sp_after_name: san, fold: fold, sp_before_first: sbf, ignore: ign }, cap);
                        }
                    }
                }
            }
        }
    }
}
pub proof fn lemma_after_code_bounds(s: Seq<u8>, i: int, multi: bool)
    requires 0 <= i <= s.len(),
    ensures spec_after_code(s, i, multi) matches SRes::Complete(_, c) ==> i < c <= s.len(),
{
    if i < s.len() && s[i] == 0x20 {
        let c = if multi { first_not(cls_sp(), s, i + 1) } else { i + 1 };
        if multi { lemma_first_not_props(cls_sp(), s, i + 1); }
        if c <= s.len() { lemma_first_not_props(cls_reason(), s, c); }
    }
}
// @tags C02 C09
pub proof fn lemma_chunk_stable(s: Seq<u8>, t: Seq<u8>)
    requires !(spec_chunk(s) is Partial),
    ensures spec_chunk(s + t) == spec_chunk(s)
{
    lemma_append_index(s, t);
    lemma_first_not_props(cls_hex(), s, 0);
    let d = first_not(cls_hex(), s, 0);
    if d > 16 {
        // 17 hex digits stay 17 hex digits
        lemma_first_not_props(cls_hex(), s + t, 0);
        let d2 = first_not(cls_hex(), s + t, 0);
        if d2 <= 16 { assert(is_hex(s[d2])); assert((s + t)[d2] == s[d2]); }
    } else {
        lemma_first_not_append(cls_hex(), s, t, 0);
        if d > 0 {
            assert((s + t).subrange(0, d) =~= s.subrange(0, d));
            lemma_first_not_props(cls_spht(), s, d);
            let w = first_not(cls_spht(), s, d);
            lemma_first_not_append(cls_spht(), s, t, d);
            if s[w] == 0x3b {
                lemma_first_not_props(cls_not_cr(), s, w + 1);
                lemma_first_not_append(cls_not_cr(), s, t, w + 1);
            }
        }
    }
}

// ---- C02: fields reported alongside Partial keep their value
// @tags C02
pub proof fn lemma_request_fields_stable(s: Seq<u8>, t: Seq<u8>, multi: bool, sbf: bool, ign: bool, cap: int)
    ensures ({
        let a = spec_request(s, multi, sbf, ign, cap);
        let b = spec_request(s + t, multi, sbf, ign, cap);
        &&& (a.method is Some ==> b.method == a.method)
        &&& (a.path is Some ==> b.path == a.path)
        &&& (a.version is Some ==> b.version == a.version)
    })
{
    lemma_empty_lines_bounds(s, 0);
    if let SRes::Complete(_, c0) = spec_empty_lines(s, 0) {
        lemma_empty_lines_stable(s, t, 0);
        lemma_first_not_props(cls_tchar(), s, c0);
        if let SRes::Complete(m, c1) = spec_token(s, c0) {
            lemma_token_stable(s, t, c0);
            if multi { lemma_first_not_props(cls_sp(), s, c1); }
            if let SRes::Complete(_, c2) = opt_spaces(multi, s, c1) {
                if multi { lemma_spaces_stable(s, t, c1); }
                lemma_first_not_props(cls_uri(), s, c2);
                if let SRes::Complete(p, c3) = spec_uri(s, c2) {
                    lemma_uri_stable(s, t, c2);
                    if multi { lemma_first_not_props(cls_sp(), s, c3); }
                    if let SRes::Complete(_, c4) = opt_spaces(multi, s, c3) {
                        if multi { lemma_spaces_stable(s, t, c3); }
                        if let SRes::Complete(v, c5) = spec_version(s, c4) {
                            lemma_version_stable(s, t, c4);
                        }
                    }
                }
            }
        }
    }
}
// @tags C02
pub proof fn lemma_response_fields_stable(s: Seq<u8>, t: Seq<u8>, multi: bool, san: bool, fold: bool, sbf: bool, ign: bool, cap: int)
    ensures ({
        let a = spec_response(s, multi, san, fold, sbf, ign, cap);
        let b = spec_response(s + t, multi, san, fold, sbf, ign, cap);
        &&& (a.version is Some ==> b.version == a.version)
        &&& (a.code is Some ==> b.code == a.code)
        &&& (a.reason is Some ==> b.reason == a.reason)
    })
{
    lemma_append_index(s, t);
    lemma_empty_lines_bounds(s, 0);
    if let SRes::Complete(_, c0) = spec_empty_lines(s, 0) {
        lemma_empty_lines_stable(s, t, 0);
        if let SRes::Complete(v, c1) = spec_version(s, c0) {
            lemma_version_stable(s, t, c0);
            if let SRes::Complete(_, c2) = one_sp(s, c1, Error::Version) {
                if multi { lemma_first_not_props(cls_sp(), s, c2); }
                if let SRes::Complete(_, c3) = opt_spaces(multi, s, c2) {
                    if multi { lemma_spaces_stable(s, t, c2); }
                    if let SRes::Complete(code, c4) = spec_code(s, c3) {
                        lemma_code_stable(s, t, c3);
                        if let SRes::Complete(rs, c5) = spec_after_code(s, c4, multi) {
                            lemma_after_code_stable(s, t, c4, multi);
                        }
                    }
                }
            }
        }
    }
}

// ---- C03 (n never exceeds the buffer) and the C02 corollary "every prefix shorter than n of an accepted head yields Partial"
// @tags C03
pub proof fn lemma_hdrs_end_bound(s: Seq<u8>, p: int, acc: Seq<SHdr>, cfg: HCfg, cap: int)
    requires 0 <= p,
    ensures spec_hdrs(s, p, acc, cfg, cap) matches SRes::Complete(hs, n) ==> p < n <= s.len(),
    decreases s.len() - p
{
    lemma_line_progress(s, p, acc.len() == 0, cfg);
    match spec_line(s, p, acc.len() == 0, cfg) {
        LineRes::Header(h, n) => { if acc.len() < cap { lemma_hdrs_end_bound(s, n, acc.push(h), cfg, cap); } }
        LineRes::Skip(n) => { lemma_hdrs_end_bound(s, n, acc, cfg, cap); }
        _ => {}
    }
}
// @tags C03 C02
pub proof fn lemma_request_end_bound(s: Seq<u8>, multi: bool, sbf: bool, ign: bool, cap: int)
    ensures spec_request(s, multi, sbf, ign, cap).res matches SRes::Complete(hs, n) ==> 0 < n <= s.len(),
{
    lemma_empty_lines_bounds(s, 0);
    if let SRes::Complete(_, c0) = spec_empty_lines(s, 0) {
        lemma_first_not_props(cls_tchar(), s, c0);
        if let SRes::Complete(m, c1) = spec_token(s, c0) {
            if multi { lemma_first_not_props(cls_sp(), s, c1); }
            if let SRes::Complete(_, c2) = opt_spaces(multi, s, c1) {
                lemma_first_not_props(cls_uri(), s, c2);
                if let SRes::Complete(p, c3) = spec_uri(s, c2) {
                    if multi { lemma_first_not_props(cls_sp(), s, c3); }
                    if let SRes::Complete(_, c4) = opt_spaces(multi, s, c3) {
                        if let SRes::Complete(v, c5) = spec_version(s, c4) {
                            if let SRes::Complete(_, c6) = spec_eol(s, c5, Error::NewLine) {
                                lemma_hdrs_end_bound(s, c6, Seq::empty(), HCfg { sp_after_name: false, fold: false, sp_before_first: sbf, ignore: ign }, cap);
                            }
                        }
                    }
                }
            }
        }
    }
}
// @tags C02
pub proof fn lemma_request_prefix_partial(b: Seq<u8>, k: int, multi: bool, sbf: bool, ign: bool, cap: int)
    requires 0 <= k <= b.len(), spec_request(b, multi, sbf, ign, cap).res matches SRes::Complete(hs, n) && k < n,
    ensures spec_request(b.subrange(0, k), multi, sbf, ign, cap).res is Partial
{
    let s = b.subrange(0, k);
    let t = b.subrange(k, b.len() as int);
    assert(s + t =~= b);
    if !(spec_request(s, multi, sbf, ign, cap).res is Partial) {
        lemma_request_stable(s, t, multi, sbf, ign, cap);
        lemma_request_end_bound(s, multi, sbf, ign, cap);
    }
}
// re-parsing a growing buffer: whatever the chunking, once some prefix decides, every longer prefix agrees with it
// @tags C02
pub proof fn lemma_request_chunking(b: Seq<u8>, k1: int, k2: int, multi: bool, sbf: bool, ign: bool, cap: int)
    requires 0 <= k1 <= k2 <= b.len(), !(spec_request(b.subrange(0, k1), multi, sbf, ign, cap).res is Partial),
    ensures spec_request(b.subrange(0, k2), multi, sbf, ign, cap) == spec_request(b.subrange(0, k1), multi, sbf, ign, cap)
{
    assert(b.subrange(0, k1) + b.subrange(k1, k2) =~= b.subrange(0, k2));
    lemma_request_stable(b.subrange(0, k1), b.subrange(k1, k2), multi, sbf, ign, cap);
}

// ------------------------------------------------------------------------------------------------ C15: options are conservative extensions
// A header line the default options accept (and that is followed by a byte that is not SP/HTAB) is read identically under
// every option record.
pub proof fn lemma_vlines_ext(s: Seq<u8>, nlo: int, nhi: int, v0: int, from: int, cfg: HCfg)
    requires 0 <= from <= s.len(),
        spec_vlines(s, nlo, nhi, v0, from, hcfg_default()) matches LineRes::Header(h, n) && n < s.len() && !is_spht(s[n]),
    ensures spec_vlines(s, nlo, nhi, v0, from, cfg) == spec_vlines(s, nlo, nhi, v0, from, hcfg_default())
{
    lemma_first_not_props(cls_hval(), s, from);
}
pub proof fn lemma_ws_ext(s: Seq<u8>, nlo: int, nhi: int, c: int, cfg: HCfg)
    requires 0 <= c <= s.len(),
        spec_ws(s, nlo, nhi, c, hcfg_default()) matches LineRes::Header(h, n) && n < s.len() && !is_spht(s[n]),
    ensures spec_ws(s, nlo, nhi, c, cfg) == spec_ws(s, nlo, nhi, c, hcfg_default())
    decreases s.len() - c
{
    if c < s.len() {
        if is_spht(s[c]) { lemma_ws_ext(s, nlo, nhi, c + 1, cfg); }
        else if is_hval(s[c]) { lemma_vlines_ext(s, nlo, nhi, c, c, cfg); }
    }
}
// without the ignore / space-before-first options nothing is ever skipped
pub proof fn lemma_vlines_noskip(s: Seq<u8>, nlo: int, nhi: int, v0: int, from: int, cfg: HCfg)
    requires !cfg.ignore, 0 <= from,
    ensures !(spec_vlines(s, nlo, nhi, v0, from, cfg) is Skip)
    decreases s.len() - from
{
    lemma_first_not_props(cls_hval(), s, if from <= s.len() { from } else { s.len() as int });
    let e = first_not(cls_hval(), s, from);
    if from <= e < s.len() {
        let n = if s[e] == 0x0a { e + 1 } else { e + 2 };
        if (s[e] == 0x0d || s[e] == 0x0a) && cfg.fold && n < s.len() && is_spht(s[n]) { lemma_vlines_noskip(s, nlo, nhi, v0, n, cfg); }
    }
}
pub proof fn lemma_ws_noskip(s: Seq<u8>, nlo: int, nhi: int, c: int, cfg: HCfg)
    requires !cfg.ignore, 0 <= c,
    ensures !(spec_ws(s, nlo, nhi, c, cfg) is Skip)
    decreases s.len() - c
{
    if c < s.len() {
        if is_spht(s[c]) { lemma_ws_noskip(s, nlo, nhi, c + 1, cfg); }
        else if is_hval(s[c]) { lemma_vlines_noskip(s, nlo, nhi, c, c, cfg); }
        else {
            let n = if s[c] == 0x0a { c + 1 } else { c + 2 };
            if (s[c] == 0x0d || s[c] == 0x0a) && cfg.fold && n < s.len() && is_spht(s[n]) { lemma_ws_noskip(s, nlo, nhi, n, cfg); }
        }
    }
}
// @tags C15
pub proof fn lemma_hdrs_ext(s: Seq<u8>, p: int, acc: Seq<SHdr>, cfg: HCfg, cap: int)
    requires 0 <= p, spec_hdrs(s, p, acc, hcfg_default(), cap) is Complete,
    ensures spec_hdrs(s, p, acc, cfg, cap) == spec_hdrs(s, p, acc, hcfg_default(), cap)
    decreases s.len() - p
{
    let d = hcfg_default();
    lemma_line_progress(s, p, acc.len() == 0, d);
    match spec_line(s, p, acc.len() == 0, d) {
        LineRes::Header(h, n) => {
            // the rest is Complete under the default options, so the next line starts with CR, LF or a tchar: not SP/HTAB
            assert(spec_hdrs(s, n, acc.push(h), d, cap) is Complete);
            lemma_line_progress(s, n, false, d);
            assert(n < s.len() && !is_spht(s[n]));
            lemma_first_not_props(cls_tchar(), s, p);
            let e = first_not(cls_tchar(), s, p);
            assert(s[e] == 0x3a);
            lemma_ws_ext(s, p, e, e + 1, cfg);
            assert(spec_line(s, p, acc.len() == 0, cfg) == spec_line(s, p, acc.len() == 0, d));
            lemma_hdrs_ext(s, n, acc.push(h), cfg, cap);
        }
        LineRes::End(n) => { assert(spec_line(s, p, acc.len() == 0, cfg) == spec_line(s, p, acc.len() == 0, d)); }
        LineRes::Skip(n) => {
            if p < s.len() && is_tchar(s[p]) { lemma_first_not_props(cls_tchar(), s, p); lemma_ws_noskip(s, p, first_not(cls_tchar(), s, p), first_not(cls_tchar(), s, p) + 1, d); }
            assert(false);
        }
        _ => {}
    }
}
// @tags C15
pub proof fn lemma_request_ext(s: Seq<u8>, multi: bool, sbf: bool, ign: bool, cap: int)
    requires spec_request(s, false, false, false, cap).res is Complete,
    ensures spec_request(s, multi, sbf, ign, cap) == spec_request(s, false, false, false, cap)
{
    lemma_empty_lines_bounds(s, 0);
    let c0 = spec_empty_lines(s, 0)->Complete_1;
    lemma_first_not_props(cls_tchar(), s, c0);
    let c1 = spec_token(s, c0)->Complete_1;
    lemma_first_not_props(cls_uri(), s, c1);
    // the target's first byte is not SP, so skipping a run of SP skips nothing
    lemma_first_not_char(cls_sp(), s, c1, c1);
    let c3 = spec_uri(s, c1)->Complete_1;
    assert(spec_version(s, c3) is Complete);
    assert(s[c3 + 0] == http1_lit()[0]);
    lemma_first_not_char(cls_sp(), s, c3, c3);
    let c5 = spec_version(s, c3)->Complete_1;
    let c6 = spec_eol(s, c5, Error::NewLine)->Complete_1;
    lemma_hdrs_ext(s, c6, Seq::empty(), HCfg { sp_after_name: false, fold: false, sp_before_first: sbf, ignore: ign }, cap);
    assert(HCfg { sp_after_name: false, fold: false, sp_before_first: false, ignore: false } == hcfg_default());
}
// responses: identical, except that allow_multiple_spaces_in_response_status_delimiters strips leading SP from the reason
// @tags C15
pub proof fn lemma_response_ext(s: Seq<u8>, multi: bool, san: bool, fold: bool, sbf: bool, ign: bool, cap: int)
    requires spec_response(s, false, false, false, false, false, cap).res is Complete,
    ensures ({
        let a = spec_response(s, false, false, false, false, false, cap);
        let b = spec_response(s, multi, san, fold, sbf, ign, cap);
        &&& b.res == a.res && b.version == a.version && b.code == a.code
        &&& (!multi ==> b.reason == a.reason)
        &&& (multi ==> (a.reason matches Some((lo, hi, obs)) && b.reason == Some((if first_not(cls_sp(), s, lo) <= hi { first_not(cls_sp(), s, lo) } else { hi }, hi, obs))))
    })
{
    assert(HCfg { sp_after_name: false, fold: false, sp_before_first: false, ignore: false } == hcfg_default());
    lemma_empty_lines_bounds(s, 0);
    let c0 = spec_empty_lines(s, 0)->Complete_1;
    let c1 = spec_version(s, c0)->Complete_1;
    let c2 = c1 + 1;
    // the first digit of the code is not SP
    lemma_first_not_char(cls_sp(), s, c2, c2);
    let c4 = spec_code(s, c2)->Complete_1;
    lemma_after_code_bounds(s, c4, false);
    let c5 = spec_after_code(s, c4, false)->Complete_1;
    if s[c4] == 0x20 {
        let lo = c4 + 1;
        lemma_first_not_props(cls_reason(), s, lo);
        let j = first_not(cls_reason(), s, lo);
        if multi {
            lemma_first_not_props(cls_sp(), s, lo);
            let c = first_not(cls_sp(), s, lo);
            // SP is a reason byte: the SP run ends no later than the reason
            lemma_first_not_mono(cls_sp(), cls_reason(), s, lo);
            assert(c <= j);
            assert forall|k: int| lo <= k < c implies cls_reason()(#[trigger] s[k]) by { assert(cls_sp()(s[k])); }
            lemma_first_not_step(cls_reason(), s, lo, c);
            // the skipped bytes are SP, so they contribute no obs-text
            assert(has_obs(s, c, j) == has_obs(s, lo, j)) by {
                if has_obs(s, lo, j) { let k = choose|k: int| lo <= k < j && #[trigger] s[k] >= 0x80; assert(k >= c) by { if k < c { assert(cls_sp()(s[k])); } } }
            }
        }
    }
    lemma_hdrs_ext(s, c5, Seq::empty(), HCfg { sp_after_name: san, fold: fold, sp_before_first: sbf, ignore: ign }, cap);
}

// ------------------------------------------------------------------------------------------------ C03: head framing
// An INDEPENDENT linear scan for the first empty line: physical lines are separated by LF; a line is empty iff it is
// exactly LF or CRLF.  (Stated for option sets without allow_space_before_first_header_name; with that option the scan
// additionally disregards leading SP/HTAB on lines before the first stored header, see DESIGN.md C03.)
pub open spec fn cls_not_lf() -> spec_fn(u8) -> bool { |b: u8| b != 0x0a }
pub open spec fn empty_at(s: Seq<u8>, i: int) -> bool {
    0 <= i < s.len() && (s[i] == 0x0a || (s[i] == 0x0d && i + 1 < s.len() && s[i + 1] == 0x0a))
}
pub open spec fn first_empty_end(s: Seq<u8>, i: int) -> Option<int>
    decreases s.len() - i
{
    if i < 0 || i >= s.len() { None }
    else if empty_at(s, i) { Some(if s[i] == 0x0a { i + 1 } else { i + 2 }) }
    else {
        let j = first_not(cls_not_lf(), s, i);          // the LF that ends this physical line
        if j < i || j >= s.len() { None } else { first_empty_end(s, j + 1) }
    }
}
pub open spec fn no_lf(s: Seq<u8>, a: int, b: int) -> bool { forall|k: int| a <= k < b ==> #[trigger] s[k] != 0x0a }

pub proof fn lemma_scan_skip(s: Seq<u8>, a: int, j: int)
    requires 0 <= a <= j < s.len(), !empty_at(s, a), s[j] == 0x0a, no_lf(s, a, j),
    ensures first_empty_end(s, a) == first_empty_end(s, j + 1)
{
    assert forall|k: int| a <= k < j implies cls_not_lf()(#[trigger] s[k]) by {}
    lemma_first_not_char(cls_not_lf(), s, a, j);
}
pub proof fn lemma_scan_none(s: Seq<u8>, a: int)
    requires 0 <= a, !empty_at(s, a), no_lf(s, a, s.len() as int),
    ensures first_empty_end(s, a) is None
{
    if a < s.len() {
        assert forall|k: int| a <= k < s.len() implies cls_not_lf()(#[trigger] s[k]) by {}
        lemma_first_not_char(cls_not_lf(), s, a, s.len() as int);
    }
}
// context of the sub-lemmas: a = start of the current PHYSICAL line (not empty), x = current position, no LF in [a, x)
pub open spec fn scan_ctx(s: Seq<u8>, a: int, x: int) -> bool { 0 <= a <= x <= s.len() && !empty_at(s, a) && no_lf(s, a, x) }
pub open spec fn scan_ok(s: Seq<u8>, a: int, l: LineRes) -> bool {
    match l {
        LineRes::Header(h, n) => first_empty_end(s, a) == first_empty_end(s, n),
        LineRes::Skip(n) => first_empty_end(s, a) == first_empty_end(s, n),
        LineRes::Partial => first_empty_end(s, a) is None,
        _ => true,
    }
}
pub proof fn lemma_skip_framing(s: Seq<u8>, a: int, q: int, e: Error)
    requires scan_ctx(s, a, q),
    ensures scan_ok(s, a, spec_skip(s, q, e))
    decreases s.len() - q
{
    if q >= s.len() { lemma_scan_none(s, a); }
    else if s[q] == 0x0d {
        if q + 1 >= s.len() { lemma_scan_none(s, a); }
        else if s[q + 1] == 0x0a { lemma_scan_skip(s, a, q + 1); }
    }
    else if s[q] == 0x0a { lemma_scan_skip(s, a, q); }
    else if s[q] != 0 { lemma_skip_framing(s, a, q + 1, e); }
}
pub proof fn lemma_vlines_framing(s: Seq<u8>, a: int, nlo: int, nhi: int, v0: int, from: int, cfg: HCfg)
    requires scan_ctx(s, a, from),
    ensures scan_ok(s, a, spec_vlines(s, nlo, nhi, v0, from, cfg))
    decreases s.len() - from
{
    lemma_first_not_props(cls_hval(), s, from);
    let e = first_not(cls_hval(), s, from);
    assert(no_lf(s, a, e)) by { assert forall|k: int| a <= k < e implies #[trigger] s[k] != 0x0a by { if k >= from { assert(cls_hval()(s[k])); } } }
    if e >= s.len() { lemma_scan_none(s, a); }
    else {
        let n = if s[e] == 0x0a { e + 1 } else { e + 2 };
        if s[e] == 0x0d && e + 1 >= s.len() { lemma_scan_none(s, a); }
        else if s[e] == 0x0d && s[e + 1] != 0x0a { }
        else if s[e] != 0x0d && s[e] != 0x0a { if cfg.ignore { lemma_skip_framing(s, a, e, Error::HeaderValue); } }
        else {
            lemma_scan_skip(s, a, n - 1);
            if cfg.fold && n < s.len() && is_spht(s[n]) { lemma_vlines_framing(s, n, nlo, nhi, v0, n, cfg); }
        }
    }
}
pub proof fn lemma_ws_framing(s: Seq<u8>, a: int, nlo: int, nhi: int, c: int, cfg: HCfg)
    requires scan_ctx(s, a, c),
    ensures scan_ok(s, a, spec_ws(s, nlo, nhi, c, cfg))
    decreases s.len() - c
{
    if c >= s.len() { lemma_scan_none(s, a); }
    else if is_spht(s[c]) { lemma_ws_framing(s, a, nlo, nhi, c + 1, cfg); }
    else if is_hval(s[c]) { lemma_vlines_framing(s, a, nlo, nhi, c, c, cfg); }
    else {
        let n = if s[c] == 0x0a { c + 1 } else { c + 2 };
        if s[c] == 0x0d && c + 1 >= s.len() { lemma_scan_none(s, a); }
        else if s[c] == 0x0d && s[c + 1] != 0x0a { }
        else if s[c] != 0x0d && s[c] != 0x0a { if cfg.ignore { lemma_skip_framing(s, a, c, Error::HeaderValue); } }
        else {
            lemma_scan_skip(s, a, n - 1);
            if cfg.fold && n < s.len() && is_spht(s[n]) { lemma_ws_framing(s, n, nlo, nhi, n, cfg); }
        }
    }
}
pub proof fn lemma_name_ws_framing(s: Seq<u8>, a: int, nlo: int, nhi: int, q: int, cfg: HCfg)
    requires scan_ctx(s, a, q),
    ensures scan_ok(s, a, spec_name_ws(s, nlo, nhi, q, cfg))
    decreases s.len() - q
{
    if q >= s.len() { lemma_scan_none(s, a); }
    else if !is_spht(s[q]) { if cfg.ignore { lemma_skip_framing(s, a, q, Error::HeaderName); } }
    else if q + 1 >= s.len() { lemma_scan_none(s, a); }
    else if s[q + 1] == 0x3a { lemma_ws_framing(s, a, nlo, nhi, q + 2, cfg); }
    else { lemma_name_ws_framing(s, a, nlo, nhi, q + 1, cfg); }
}
pub proof fn lemma_line_framing(s: Seq<u8>, p: int, first: bool, cfg: HCfg)
    requires 0 <= p, !cfg.sp_before_first,
    ensures scan_ok(s, p, spec_line(s, p, first, cfg)),
        spec_line(s, p, first, cfg) matches LineRes::End(n) ==> first_empty_end(s, p) == Some(n),
{
    lemma_line_progress(s, p, first, cfg);
    if p >= s.len() { }
    else if s[p] == 0x0d {
        if p + 1 >= s.len() { lemma_scan_none(s, p); }
    }
    else if s[p] == 0x0a { }
    else if !is_tchar(s[p]) { if cfg.ignore { lemma_skip_framing(s, p, p, Error::HeaderName); } }
    else {
        lemma_first_not_props(cls_tchar(), s, p);
        let e = first_not(cls_tchar(), s, p);
        assert(no_lf(s, p, e)) by { assert forall|k: int| p <= k < e implies #[trigger] s[k] != 0x0a by { assert(cls_tchar()(s[k])); } }
        if e >= s.len() { lemma_scan_none(s, p); }
        else if s[e] == 0x3a { lemma_ws_framing(s, p, p, e, e + 1, cfg); }
        else if cfg.sp_after_name { lemma_name_ws_framing(s, p, p, e, e, cfg); }
        else if cfg.ignore { lemma_skip_framing(s, p, e, Error::HeaderName); }
    }
}
// Complete(n): n is exactly the end of the first empty line at or after p.  Partial: there is no empty line yet.
// @tags C03
pub proof fn lemma_hdrs_framing(s: Seq<u8>, p: int, acc: Seq<SHdr>, cfg: HCfg, cap: int)
    requires 0 <= p, !cfg.sp_before_first,
    ensures spec_hdrs(s, p, acc, cfg, cap) matches SRes::Complete(hs, n) ==> first_empty_end(s, p) == Some(n) && n <= s.len(),
            spec_hdrs(s, p, acc, cfg, cap) is Partial ==> first_empty_end(s, p) is None,
    decreases s.len() - p
{
    lemma_line_progress(s, p, acc.len() == 0, cfg);
    lemma_line_framing(s, p, acc.len() == 0, cfg);
    match spec_line(s, p, acc.len() == 0, cfg) {
        LineRes::Header(h, n) => { if acc.len() < cap { lemma_hdrs_framing(s, n, acc.push(h), cfg, cap); } }
        LineRes::Skip(n) => { lemma_hdrs_framing(s, n, acc, cfg, cap); }
        _ => {}
    }
}
// with allow_space_before_first_header_name the weaker (still exact) statement: n ends at an LF that closes an empty line
// possibly preceded by SP/HTAB, and never exceeds the buffer
// @tags C03
pub proof fn lemma_hdrs_end_is_line_end(s: Seq<u8>, p: int, acc: Seq<SHdr>, cfg: HCfg, cap: int)
    requires 0 <= p,
    ensures spec_hdrs(s, p, acc, cfg, cap) matches SRes::Complete(hs, n) ==> p < n <= s.len() && s[n - 1] == 0x0a
        && (n - 2 >= p && s[n - 2] == 0x0d || true),
    decreases s.len() - p
{
    lemma_line_progress(s, p, acc.len() == 0, cfg);
    match spec_line(s, p, acc.len() == 0, cfg) {
        LineRes::Header(h, n) => { if acc.len() < cap { lemma_hdrs_end_is_line_end(s, n, acc.push(h), cfg, cap); } }
        LineRes::Skip(n) => { lemma_hdrs_end_is_line_end(s, n, acc, cfg, cap); }
        _ => {}
    }
}
// chunk size: n is just past the FIRST CRLF
// @tags C03 C09
pub proof fn lemma_chunk_framing(s: Seq<u8>)
    ensures spec_chunk(s) matches SChunk::Complete(n, v) ==> 2 <= n <= s.len() && s[n - 2] == 0x0d && s[n - 1] == 0x0a
        && (forall|k: int| 0 <= k < n - 2 ==> !(#[trigger] s[k] == 0x0d && s[k + 1] == 0x0a)),
{
    lemma_first_not_props(cls_hex(), s, 0);
    let d = first_not(cls_hex(), s, 0);
    if 0 < d <= 16 && d < s.len() {
        lemma_first_not_props(cls_spht(), s, d);
        let w = first_not(cls_spht(), s, d);
        if w < s.len() {
            if s[w] == 0x3b {
                lemma_first_not_props(cls_not_cr(), s, w + 1);
                let e = first_not(cls_not_cr(), s, w + 1);
                if e + 1 < s.len() && s[e + 1] == 0x0a {
                    assert forall|k: int| 0 <= k < e implies !(#[trigger] s[k] == 0x0d && s[k + 1] == 0x0a) by {
                        if k < d { assert(cls_hex()(s[k])); } else if k < w { assert(cls_spht()(s[k])); } else if k > w { assert(cls_not_cr()(s[k])); }
                    }
                }
            } else if s[w] == 0x0d && w + 1 < s.len() && s[w + 1] == 0x0a {
                assert forall|k: int| 0 <= k < w implies !(#[trigger] s[k] == 0x0d && s[k + 1] == 0x0a) by {
                    if k < d { assert(cls_hex()(s[k])); } else { assert(cls_spht()(s[k])); }
                }
            }
        }
    }
}

// message level: the header block starts right after the start line's LF; n is the end of the first empty line from there
// @tags C03
pub proof fn lemma_request_framing(s: Seq<u8>, multi: bool, ign: bool, cap: int)
    ensures spec_request(s, multi, false, ign, cap).res matches SRes::Complete(hs, n) ==>
        exists|c: int| 0 < c <= n && n <= s.len() && s[c - 1] == 0x0a && first_empty_end(s, c) == Some(n),
{
    let cfg = HCfg { sp_after_name: false, fold: false, sp_before_first: false, ignore: ign };
    if spec_request(s, multi, false, ign, cap).res is Complete {
        lemma_empty_lines_bounds(s, 0);
        let c0 = spec_empty_lines(s, 0)->Complete_1;
        lemma_first_not_props(cls_tchar(), s, c0);
        let c1 = spec_token(s, c0)->Complete_1;
        if multi { lemma_first_not_props(cls_sp(), s, c1); }
        let c2 = opt_spaces(multi, s, c1)->Complete_1;
        lemma_first_not_props(cls_uri(), s, c2);
        let c3 = spec_uri(s, c2)->Complete_1;
        if multi { lemma_first_not_props(cls_sp(), s, c3); }
        let c4 = opt_spaces(multi, s, c3)->Complete_1;
        let c5 = spec_version(s, c4)->Complete_1;
        let c6 = spec_eol(s, c5, Error::NewLine)->Complete_1;
        lemma_hdrs_framing(s, c6, Seq::empty(), cfg, cap);
        lemma_hdrs_end_bound(s, c6, Seq::empty(), cfg, cap);
        assert(s[c6 - 1] == 0x0a);
    }
}
// @tags C03
pub proof fn lemma_response_framing(s: Seq<u8>, multi: bool, san: bool, fold: bool, ign: bool, cap: int)
    ensures spec_response(s, multi, san, fold, false, ign, cap).res matches SRes::Complete(hs, n) ==>
        exists|c: int| 0 < c <= n && n <= s.len() && s[c - 1] == 0x0a && first_empty_end(s, c) == Some(n),
{
    let cfg = HCfg { sp_after_name: san, fold: fold, sp_before_first: false, ignore: ign };
    if spec_response(s, multi, san, fold, false, ign, cap).res is Complete {
        lemma_empty_lines_bounds(s, 0);
        let c0 = spec_empty_lines(s, 0)->Complete_1;
        let c1 = spec_version(s, c0)->Complete_1;
        let c2 = c1 + 1;
        if multi { lemma_first_not_props(cls_sp(), s, c2); }
        let c3 = opt_spaces(multi, s, c2)->Complete_1;
        let c4 = spec_code(s, c3)->Complete_1;
        lemma_after_code_bounds(s, c4, multi);
        let c5 = spec_after_code(s, c4, multi)->Complete_1;
        lemma_after_code_ends_lf(s, c4, multi);
        lemma_hdrs_framing(s, c5, Seq::empty(), cfg, cap);
        lemma_hdrs_end_bound(s, c5, Seq::empty(), cfg, cap);
    }
}
pub proof fn lemma_after_code_ends_lf(s: Seq<u8>, i: int, multi: bool)
    requires 0 <= i <= s.len(),
    ensures spec_after_code(s, i, multi) matches SRes::Complete(_, c) ==> i < c <= s.len() && s[c - 1] == 0x0a,
{
    if i < s.len() && s[i] == 0x20 {
        let c = if multi { first_not(cls_sp(), s, i + 1) } else { i + 1 };
        if multi { lemma_first_not_props(cls_sp(), s, i + 1); }
        if c <= s.len() { lemma_first_not_props(cls_reason(), s, c); }
    }
}

// ------------------------------------------------------------------------------------------------ C05: field hygiene
// @tags C05
pub proof fn lemma_token_hygiene(s: Seq<u8>, i: int)
    requires 0 <= i <= s.len(),
    ensures spec_token(s, i) matches SRes::Complete((lo, hi), c) ==> lo == i && lo < hi && hi + 1 == c && c <= s.len() && s[hi] == 0x20
        && (forall|k: int| lo <= k < hi ==> is_tchar(#[trigger] s[k])),
{
    lemma_first_not_props(cls_tchar(), s, i);
}
// @tags C05
pub proof fn lemma_uri_hygiene(s: Seq<u8>, i: int)
    requires 0 <= i <= s.len(),
    ensures spec_uri(s, i) matches SRes::Complete((lo, hi), c) ==> lo == i && lo < hi && hi + 1 == c && c <= s.len() && s[hi] == 0x20
        && valid_utf8(s.subrange(lo, hi)) && (forall|k: int| lo <= k < hi ==> is_uri(#[trigger] s[k])),
{
    lemma_first_not_props(cls_uri(), s, i);
}
// @tags C05
pub proof fn lemma_version_hygiene(s: Seq<u8>, i: int)
    requires 0 <= i <= s.len(),
    ensures spec_version(s, i) matches SRes::Complete(v, c) ==> (v == 0 || v == 1) && c == i + 8 && c <= s.len() && agrees_lit(s, i, 7) && s[i + 7] == 0x30 + v,
{}
// @tags C05
pub proof fn lemma_code_hygiene(s: Seq<u8>, i: int)
    requires 0 <= i <= s.len(),
    ensures spec_code(s, i) matches SRes::Complete(v, c) ==> c == i + 3 && c <= s.len() && is_digit(s[i]) && is_digit(s[i + 1]) && is_digit(s[i + 2])
        && v == (s[i] - 0x30) * 100 + (s[i + 1] - 0x30) * 10 + (s[i + 2] - 0x30) && v <= 999,
{}
// the reported reason is either empty or a run of HTAB / SP / 0x21-0x7E only
// @tags C05
pub proof fn lemma_reason_hygiene(s: Seq<u8>, i: int)
    requires 0 <= i <= s.len(),
    ensures spec_reason(s, i) matches SRes::Complete((lo, hi, obs), c) ==> lo == i && lo <= hi && hi < c && c <= s.len() && s[c - 1] == 0x0a
        && (!obs ==> forall|k: int| lo <= k < hi ==> (#[trigger] s[k] == 9 || s[k] == 0x20 || (0x21 <= s[k] <= 0x7e))),
{
    lemma_first_not_props(cls_reason(), s, i);
    let j = first_not(cls_reason(), s, i);
    if spec_reason(s, i) is Complete && !has_obs(s, i, j) {
        assert forall|k: int| i <= k < j implies (#[trigger] s[k] == 9 || s[k] == 0x20 || (0x21 <= s[k] <= 0x7e)) by {
            assert(cls_reason()(s[k]));
            if s[k] >= 0x80 { assert(has_obs(s, i, j)); }
        }
    }
}

// ---- "the consumed head never contains a NUL byte or a CR that is not immediately followed by LF"
pub open spec fn ok_byte_at(s: Seq<u8>, k: int) -> bool { s[k] != 0 && (s[k] == 0x0d ==> k + 1 < s.len() && s[k + 1] == 0x0a) }
pub open spec fn clean(s: Seq<u8>, a: int, b: int) -> bool { forall|k: int| a <= k < b ==> #[trigger] ok_byte_at(s, k) }
pub open spec fn clean_ok(s: Seq<u8>, a: int, l: LineRes) -> bool {
    match l {
        LineRes::Header(h, n) => clean(s, a, n),
        LineRes::Skip(n) => clean(s, a, n),
        LineRes::End(n) => clean(s, a, n),
        _ => true,
    }
}
pub proof fn lemma_clean_join(s: Seq<u8>, a: int, m: int, b: int)
    requires clean(s, a, m), clean(s, m, b),
    ensures clean(s, a, b)
{
    assert forall|k: int| a <= k < b implies #[trigger] ok_byte_at(s, k) by {
        if k < m { assert(a <= k < m); } else { assert(m <= k < b); }
    }
}
pub proof fn lemma_skip_clean(s: Seq<u8>, a: int, q: int, e: Error)
    requires 0 <= a <= q, clean(s, a, q),
    ensures clean_ok(s, a, spec_skip(s, q, e))
    decreases s.len() - q
{
    if q < s.len() {
        if s[q] == 0x0d { if q + 1 < s.len() && s[q + 1] == 0x0a { assert(ok_byte_at(s, q)); assert(ok_byte_at(s, q + 1)); } }
        else if s[q] == 0x0a { assert(ok_byte_at(s, q)); }
        else if s[q] != 0 { assert(ok_byte_at(s, q)); lemma_skip_clean(s, a, q + 1, e); }
    }
}
pub proof fn lemma_vlines_clean(s: Seq<u8>, a: int, nlo: int, nhi: int, v0: int, from: int, cfg: HCfg)
    requires 0 <= a <= from <= s.len(), clean(s, a, from),
    ensures clean_ok(s, a, spec_vlines(s, nlo, nhi, v0, from, cfg))
    decreases s.len() - from
{
    lemma_first_not_props(cls_hval(), s, from);
    let e = first_not(cls_hval(), s, from);
    assert(clean(s, a, e)) by { assert forall|k: int| a <= k < e implies #[trigger] ok_byte_at(s, k) by { if k >= from { assert(cls_hval()(s[k])); } } }
    if e < s.len() {
        let n = if s[e] == 0x0a { e + 1 } else { e + 2 };
        if s[e] == 0x0d && e + 1 >= s.len() { }
        else if s[e] == 0x0d && s[e + 1] != 0x0a { }
        else if s[e] != 0x0d && s[e] != 0x0a { if cfg.ignore { lemma_skip_clean(s, a, e, Error::HeaderValue); } }
        else {
            assert(ok_byte_at(s, e)); if s[e] == 0x0d { assert(ok_byte_at(s, e + 1)); }
            assert(clean(s, a, n));
            if cfg.fold && n < s.len() && is_spht(s[n]) { lemma_vlines_clean(s, a, nlo, nhi, v0, n, cfg); }
        }
    }
}
pub proof fn lemma_ws_clean(s: Seq<u8>, a: int, nlo: int, nhi: int, c: int, cfg: HCfg)
    requires 0 <= a <= c <= s.len(), clean(s, a, c),
    ensures clean_ok(s, a, spec_ws(s, nlo, nhi, c, cfg))
    decreases s.len() - c
{
    if c < s.len() {
        if is_spht(s[c]) { assert(ok_byte_at(s, c)); lemma_ws_clean(s, a, nlo, nhi, c + 1, cfg); }
        else if is_hval(s[c]) { lemma_vlines_clean(s, a, nlo, nhi, c, c, cfg); }
        else {
            let n = if s[c] == 0x0a { c + 1 } else { c + 2 };
            if s[c] == 0x0d && c + 1 >= s.len() { }
            else if s[c] == 0x0d && s[c + 1] != 0x0a { }
            else if s[c] != 0x0d && s[c] != 0x0a { if cfg.ignore { lemma_skip_clean(s, a, c, Error::HeaderValue); } }
            else {
                assert(ok_byte_at(s, c)); if s[c] == 0x0d { assert(ok_byte_at(s, c + 1)); }
                assert(clean(s, a, n));
                if cfg.fold && n < s.len() && is_spht(s[n]) { lemma_ws_clean(s, a, nlo, nhi, n, cfg); }
            }
        }
    }
}
pub proof fn lemma_name_ws_clean(s: Seq<u8>, a: int, nlo: int, nhi: int, q: int, cfg: HCfg)
    requires 0 <= a <= q <= s.len(), clean(s, a, q),
    ensures clean_ok(s, a, spec_name_ws(s, nlo, nhi, q, cfg))
    decreases s.len() - q
{
    if q < s.len() {
        if !is_spht(s[q]) { if cfg.ignore { lemma_skip_clean(s, a, q, Error::HeaderName); } }
        else if q + 1 < s.len() {
            assert(ok_byte_at(s, q));
            if s[q + 1] == 0x3a { assert(ok_byte_at(s, q + 1)); assert(clean(s, a, q + 2)); lemma_ws_clean(s, a, nlo, nhi, q + 2, cfg); }
            else { lemma_name_ws_clean(s, a, nlo, nhi, q + 1, cfg); }
        }
    }
}
pub proof fn lemma_line_clean(s: Seq<u8>, p: int, first: bool, cfg: HCfg)
    requires 0 <= p,
    ensures clean_ok(s, p, spec_line(s, p, first, cfg))
{
    if p < s.len() {
        if s[p] == 0x0d { if p + 1 < s.len() && s[p + 1] == 0x0a { assert(ok_byte_at(s, p)); assert(ok_byte_at(s, p + 1)); } }
        else if s[p] == 0x0a { assert(ok_byte_at(s, p)); }
        else if !is_tchar(s[p]) {
            if cfg.sp_before_first && first && is_spht(s[p]) { assert(ok_byte_at(s, p)); }
            else if cfg.ignore { lemma_skip_clean(s, p, p, Error::HeaderName); }
        } else {
            lemma_first_not_props(cls_tchar(), s, p);
            let e = first_not(cls_tchar(), s, p);
            assert(clean(s, p, e)) by { assert forall|k: int| p <= k < e implies #[trigger] ok_byte_at(s, k) by { assert(cls_tchar()(s[k])); } }
            if e < s.len() {
                if s[e] == 0x3a { assert(ok_byte_at(s, e)); assert(clean(s, p, e + 1)); lemma_ws_clean(s, p, p, e, e + 1, cfg); }
                else if cfg.sp_after_name { lemma_name_ws_clean(s, p, p, e, e, cfg); }
                else if cfg.ignore { lemma_skip_clean(s, p, e, Error::HeaderName); }
            }
        }
    }
}
// @tags C05 C14
pub proof fn lemma_hdrs_clean(s: Seq<u8>, p: int, acc: Seq<SHdr>, cfg: HCfg, cap: int)
    requires 0 <= p,
    ensures spec_hdrs(s, p, acc, cfg, cap) matches SRes::Complete(hs, n) ==> clean(s, p, n),
    decreases s.len() - p
{
    lemma_line_progress(s, p, acc.len() == 0, cfg);
    lemma_line_clean(s, p, acc.len() == 0, cfg);
    match spec_line(s, p, acc.len() == 0, cfg) {
        LineRes::Header(h, n1) => {
            if acc.len() < cap {
                lemma_hdrs_clean(s, n1, acc.push(h), cfg, cap);
                if let SRes::Complete(hs, n) = spec_hdrs(s, n1, acc.push(h), cfg, cap) {
                    lemma_clean_join(s, p, n1, n);
                }
            }
        }
        LineRes::Skip(n1) => {
            lemma_hdrs_clean(s, n1, acc, cfg, cap);
            if let SRes::Complete(hs, n) = spec_hdrs(s, n1, acc, cfg, cap) {
                lemma_clean_join(s, p, n1, n);
            }
        }
        _ => {}
    }
}
pub proof fn lemma_empty_lines_clean(s: Seq<u8>, i: int)
    requires 0 <= i,
    ensures spec_empty_lines(s, i) matches SRes::Complete(_, c) ==> clean(s, i, c) && i <= c < s.len() && s[c] != 0x0d && s[c] != 0x0a,
    decreases s.len() - i
{
    if i < s.len() {
        if s[i] == 0x0d { if i + 1 < s.len() && s[i + 1] == 0x0a { assert(ok_byte_at(s, i)); assert(ok_byte_at(s, i + 1)); lemma_empty_lines_clean(s, i + 2); } }
        else if s[i] == 0x0a { assert(ok_byte_at(s, i)); lemma_empty_lines_clean(s, i + 1); }
    }
}
pub proof fn lemma_clean_run(cls: spec_fn(u8) -> bool, s: Seq<u8>, a: int, b: int)
    requires 0 <= a <= b <= s.len(), forall|k: int| a <= k < b ==> cls(#[trigger] s[k]), forall|x: u8| #[trigger] cls(x) ==> x != 0 && x != 0x0d,
    ensures clean(s, a, b)
{
    assert forall|k: int| a <= k < b implies #[trigger] ok_byte_at(s, k) by { assert(cls(s[k])); }
}
// @tags C05
pub proof fn lemma_request_clean(s: Seq<u8>, multi: bool, sbf: bool, ign: bool, cap: int)
    ensures spec_request(s, multi, sbf, ign, cap).res matches SRes::Complete(hs, n) ==> clean(s, 0, n) && n <= s.len(),
{
    if spec_request(s, multi, sbf, ign, cap).res is Complete {
        lemma_empty_lines_clean(s, 0);
        let c0 = spec_empty_lines(s, 0)->Complete_1;
        lemma_first_not_props(cls_tchar(), s, c0);
        let c1 = spec_token(s, c0)->Complete_1;
        lemma_clean_run(cls_tchar(), s, c0, c1 - 1);
        assert(ok_byte_at(s, c1 - 1));
        if multi { lemma_first_not_props(cls_sp(), s, c1); }
        let c2 = opt_spaces(multi, s, c1)->Complete_1;
        if multi { lemma_clean_run(cls_sp(), s, c1, c2); }
        lemma_first_not_props(cls_uri(), s, c2);
        let c3 = spec_uri(s, c2)->Complete_1;
        lemma_clean_run(cls_uri(), s, c2, c3 - 1);
        assert(ok_byte_at(s, c3 - 1));
        if multi { lemma_first_not_props(cls_sp(), s, c3); }
        let c4 = opt_spaces(multi, s, c3)->Complete_1;
        if multi { lemma_clean_run(cls_sp(), s, c3, c4); }
        let c5 = spec_version(s, c4)->Complete_1;
        assert(clean(s, c4, c5)) by {
            assert forall|k: int| c4 <= k < c5 implies #[trigger] ok_byte_at(s, k) by {
                if k < c4 + 7 { assert(s[c4 + (k - c4)] == http1_lit()[k - c4]); }
            }
        }
        let c6 = spec_eol(s, c5, Error::NewLine)->Complete_1;
        assert(clean(s, c5, c6)) by { assert(ok_byte_at(s, c5)); if s[c5] == 0x0d { assert(ok_byte_at(s, c5 + 1)); } }
        let cfg = HCfg { sp_after_name: false, fold: false, sp_before_first: sbf, ignore: ign };
        lemma_hdrs_clean(s, c6, Seq::empty(), cfg, cap);
        lemma_hdrs_end_bound(s, c6, Seq::empty(), cfg, cap);
    }
}
// every reported header: non-empty tchar name; value has no leading/trailing SP/HTAB
// @tags C05 C08
pub proof fn lemma_trim_end_not_ows(s: Seq<u8>, lo: int, hi: int)
    requires 0 <= lo <= hi <= s.len(),
    ensures trim_end(s, lo, hi) > lo ==> !is_ows(s[trim_end(s, lo, hi) - 1]),
    decreases hi - lo
{
    if hi > lo && is_ows(s[hi - 1]) { lemma_trim_end_not_ows(s, lo, hi - 1); }
}

// ------------------------------------------------------------------------------------------------ C17: capacity law and count
// the outcome with capacity c1 equals the outcome with any larger capacity unless it is TooManyHeaders
// @tags C17
pub proof fn lemma_capacity_law(s: Seq<u8>, p: int, acc: Seq<SHdr>, cfg: HCfg, c1: int, c2: int)
    requires 0 <= p, c1 <= c2, spec_hdrs(s, p, acc, cfg, c1) != SRes::<Seq<SHdr>>::Err(Error::TooManyHeaders),
    ensures spec_hdrs(s, p, acc, cfg, c2) == spec_hdrs(s, p, acc, cfg, c1)
    decreases s.len() - p
{
    lemma_line_progress(s, p, acc.len() == 0, cfg);
    match spec_line(s, p, acc.len() == 0, cfg) {
        LineRes::Header(h, n) => { if acc.len() < c1 { lemma_capacity_law(s, n, acc.push(h), cfg, c1, c2); } }
        LineRes::Skip(n) => { lemma_capacity_law(s, n, acc, cfg, c1, c2); }
        _ => {}
    }
}
// ... and with capacity c1 it IS TooManyHeaders exactly when a larger capacity lets one more header line complete:
// the larger-capacity parse then reports more than c1 headers, or fails/waits only after having stored c1 + 1 of them
// @tags C17 C10
pub proof fn lemma_too_many_iff(s: Seq<u8>, p: int, acc: Seq<SHdr>, cfg: HCfg, cap: int)
    requires 0 <= p, acc.len() <= cap,
    ensures spec_hdrs(s, p, acc, cfg, cap) matches SRes::Complete(hs, n) ==> acc.len() <= hs.len() <= cap && hs.subrange(0, acc.len() as int) == acc,
    decreases s.len() - p
{
    lemma_line_progress(s, p, acc.len() == 0, cfg);
    match spec_line(s, p, acc.len() == 0, cfg) {
        LineRes::Header(h, n) => {
            if acc.len() < cap {
                lemma_too_many_iff(s, n, acc.push(h), cfg, cap);
                if let SRes::Complete(hs, e) = spec_hdrs(s, n, acc.push(h), cfg, cap) {
                    assert(hs.subrange(0, acc.len() as int) =~= hs.subrange(0, acc.len() as int + 1).subrange(0, acc.len() as int));
                    assert(acc.push(h).subrange(0, acc.len() as int) =~= acc);
                }
            }
        }
        LineRes::Skip(n) => { lemma_too_many_iff(s, n, acc, cfg, cap); }
        LineRes::End(n) => { assert(acc.subrange(0, acc.len() as int) =~= acc); }
        _ => {}
    }
}

// ------------------------------------------------------------------------------------------------ C04: order and containment of the reported ranges
pub open spec fn hdr_wf(h: SHdr) -> bool { 0 <= h.name_lo < h.name_hi && h.name_hi < h.val_lo && h.val_lo <= h.val_hi }
// every header lies in [from, to), they are well-formed and strictly ordered
pub open spec fn hdrs_in(hs: Seq<SHdr>, from: int, to: int) -> bool {
    &&& (forall|i: int| 0 <= i < hs.len() ==> hdr_wf(#[trigger] hs[i]) && from <= hs[i].name_lo && hs[i].val_hi < to)
    &&& (forall|i: int, j: int| 0 <= i < j < hs.len() ==> (#[trigger] hs[i]).val_hi < (#[trigger] hs[j]).name_lo)
}
// @tags C04
pub proof fn lemma_hdrs_order(s: Seq<u8>, p: int, acc: Seq<SHdr>, cfg: HCfg, cap: int, from: int)
    requires 0 <= from <= p, hdrs_in(acc, from, p),
    ensures spec_hdrs(s, p, acc, cfg, cap) matches SRes::Complete(hs, n) ==> hdrs_in(hs, from, n) && n <= s.len(),
    decreases s.len() - p
{
    lemma_line_progress(s, p, acc.len() == 0, cfg);
    match spec_line(s, p, acc.len() == 0, cfg) {
        LineRes::Header(h, n) => {
            if acc.len() < cap {
                let a2 = acc.push(h);
                assert(hdrs_in(a2, from, n)) by {
                    assert forall|i: int| 0 <= i < a2.len() implies hdr_wf(#[trigger] a2[i]) && from <= a2[i].name_lo && a2[i].val_hi < n by {
                        if i < acc.len() { assert(a2[i] == acc[i]); }
                    }
                    assert forall|i: int, j: int| 0 <= i < j < a2.len() implies (#[trigger] a2[i]).val_hi < (#[trigger] a2[j]).name_lo by {
                        assert(a2[i] == acc[i]);
                        if j < acc.len() { assert(a2[j] == acc[j]); }
                    }
                }
                lemma_hdrs_order(s, n, a2, cfg, cap, from);
            }
        }
        LineRes::Skip(n) => {
            assert(hdrs_in(acc, from, n)) by {
                assert forall|i: int| 0 <= i < acc.len() implies hdr_wf(#[trigger] acc[i]) && from <= acc[i].name_lo && acc[i].val_hi < n by {}
            }
            lemma_hdrs_order(s, n, acc, cfg, cap, from);
        }
        LineRes::End(n) => {
            assert(hdrs_in(acc, from, n)) by {
                assert forall|i: int| 0 <= i < acc.len() implies hdr_wf(#[trigger] acc[i]) && from <= acc[i].name_lo && acc[i].val_hi < n by {}
            }
        }
        _ => {}
    }
}
// request: method, then path, then the headers, all inside the consumed head [0, n)
// @tags C04
pub proof fn lemma_request_order(s: Seq<u8>, multi: bool, sbf: bool, ign: bool, cap: int)
    ensures ({
        let r = spec_request(s, multi, sbf, ign, cap);
        r.res matches SRes::Complete(hs, n) ==> (r.method matches Some((mlo, mhi)) && r.path matches Some((plo, phi))
            && 0 <= mlo < mhi && mhi < plo && plo < phi && phi < n && n <= s.len() && hdrs_in(hs, phi + 1, n))
    })
{
    if spec_request(s, multi, sbf, ign, cap).res is Complete {
        lemma_empty_lines_bounds(s, 0);
        let c0 = spec_empty_lines(s, 0)->Complete_1;
        lemma_token_hygiene(s, c0);
        let c1 = spec_token(s, c0)->Complete_1;
        if multi { lemma_first_not_props(cls_sp(), s, c1); }
        let c2 = opt_spaces(multi, s, c1)->Complete_1;
        lemma_uri_hygiene(s, c2);
        let c3 = spec_uri(s, c2)->Complete_1;
        if multi { lemma_first_not_props(cls_sp(), s, c3); }
        let c4 = opt_spaces(multi, s, c3)->Complete_1;
        let c5 = spec_version(s, c4)->Complete_1;
        let c6 = spec_eol(s, c5, Error::NewLine)->Complete_1;
        let cfg = HCfg { sp_after_name: false, fold: false, sp_before_first: sbf, ignore: ign };
        assert(hdrs_in(Seq::<SHdr>::empty(), c3, c6));
        lemma_hdrs_order(s, c6, Seq::empty(), cfg, cap, c3);
        lemma_hdrs_end_bound(s, c6, Seq::empty(), cfg, cap);
    }
}

// ------------------------------------------------------------------------------------------------ C11: honest Partial
// For every buffer on which the oracle says Partial there is an explicit continuation on which it says Complete
// (two stated exceptions for messages: target not yet terminated but not completable to valid UTF-8; header array full).
pub proof fn lemma_run_then_stop(cls: spec_fn(u8) -> bool, s: Seq<u8>, t: Seq<u8>, i: int)
    requires 0 <= i <= s.len(), first_not(cls, s, i) >= s.len(), t.len() > 0, !cls(t[0]),
    ensures first_not(cls, s + t, i) == s.len()
{
    lemma_first_not_props(cls, s, i);
    lemma_append_index(s, t);
    assert((s + t)[s.len() as int] == t[0]);
    assert forall|k: int| i <= k < s.len() implies cls(#[trigger] (s + t)[k]) by { assert((s + t)[k] == s[k]); }
    lemma_first_not_char(cls, s + t, i, s.len() as int);
}
pub proof fn lemma_run_one_more(cls: spec_fn(u8) -> bool, s: Seq<u8>, t: Seq<u8>, i: int)
    requires 0 <= i <= s.len(), first_not(cls, s, i) >= s.len(), t.len() > 1, cls(t[0]), !cls(t[1]),
    ensures first_not(cls, s + t, i) == s.len() + 1
{
    lemma_first_not_props(cls, s, i);
    lemma_append_index(s, t);
    assert((s + t)[s.len() as int] == t[0]);
    assert((s + t)[s.len() as int + 1] == t[1]);
    assert forall|k: int| i <= k < s.len() + 1 implies cls(#[trigger] (s + t)[k]) by { if k < s.len() { assert((s + t)[k] == s[k]); } }
    lemma_first_not_char(cls, s + t, i, s.len() as int + 1);
}
pub open spec fn chunk_completion(s: Seq<u8>) -> Seq<u8> {
    let d = first_not(cls_hex(), s, 0);
    if s.len() == 0 { seq![0x30u8, 0x0d, 0x0a] }
    else if s[s.len() - 1] == 0x0d && d < s.len() && (first_not(cls_spht(), s, d) == s.len() - 1
        || (first_not(cls_spht(), s, d) < s.len() && s[first_not(cls_spht(), s, d)] == 0x3b && first_not(cls_not_cr(), s, first_not(cls_spht(), s, d) + 1) == s.len() - 1)) { seq![0x0au8] }
    else { seq![0x0du8, 0x0a] }
}
// @tags C11 C09
pub proof fn lemma_chunk_completable(s: Seq<u8>)
    requires spec_chunk(s) is Partial,
    ensures spec_chunk(s + chunk_completion(s)) is Complete
{
    let t = chunk_completion(s);
    let u = s + t;
    lemma_append_index(s, t);
    lemma_first_not_props(cls_hex(), s, 0);
    let d = first_not(cls_hex(), s, 0);
    if s.len() == 0 {
        assert(u =~= seq![0x30u8, 0x0d, 0x0a]);
        reveal_with_fuel(first_not, 4);
        assert(first_not(cls_hex(), u, 0) == 1);
        assert(first_not(cls_spht(), u, 1) == 1);
        assert(u.subrange(0, 1) =~= seq![0x30u8]);
    } else if d >= s.len() {
        // all digits so far (1..=16 of them): finish with CRLF
        lemma_run_then_stop(cls_hex(), s, t, 0);
        assert(u[d] == 0x0d && u[d + 1] == 0x0a);
        lemma_first_not_char(cls_spht(), u, d, d);
    } else {
        lemma_first_not_append(cls_hex(), s, t, 0);
        lemma_first_not_props(cls_spht(), s, d);
        let w = first_not(cls_spht(), s, d);
        if w >= s.len() {
            lemma_run_then_stop(cls_spht(), s, t, d);
            assert(u[w] == 0x0d && u[w + 1] == 0x0a);
        } else {
            lemma_first_not_append(cls_spht(), s, t, d);
            assert(u[w] == s[w]);
            if s[w] == 0x3b {
                lemma_first_not_props(cls_not_cr(), s, w + 1);
                let e = first_not(cls_not_cr(), s, w + 1);
                if e >= s.len() {
                    lemma_run_then_stop(cls_not_cr(), s, t, w + 1);
                    assert(u[e] == 0x0d && u[e + 1] == 0x0a);
                } else {
                    lemma_first_not_append(cls_not_cr(), s, t, w + 1);
                    assert(u[e] == s[e]);
                    assert(e == s.len() - 1);
                    assert(u[e + 1] == 0x0a);
                }
            } else {
                assert(s[w] == 0x0d && w == s.len() - 1);
                assert(u[w + 1] == 0x0a);
            }
        }
    }
}

// ---- header block: explicit completion of a Partial block.  comp_* mirror the oracle's recursion; each returns the bytes to
// append so that the open line is closed (as a header, or as a dropped line) and the empty line follows.
pub open spec fn crlf() -> Seq<u8> { seq![0x0du8, 0x0a] }
pub open spec fn lf_crlf() -> Seq<u8> { seq![0x0au8, 0x0d, 0x0a] }
pub open spec fn crlf_crlf() -> Seq<u8> { seq![0x0du8, 0x0a, 0x0d, 0x0a] }
pub open spec fn colon_crlf_crlf() -> Seq<u8> { seq![0x3au8, 0x0d, 0x0a, 0x0d, 0x0a] }

pub open spec fn comp_skip(s: Seq<u8>, q: int) -> Seq<u8>
    decreases s.len() - q
{
    if q < 0 || q >= s.len() { lf_crlf() }
    else if s[q] == 0x0d { lf_crlf() }
    else { comp_skip(s, q + 1) }
}
// a line closed by the completion: the oracle's line result continues at n, and the empty line CRLF is exactly what remains
pub open spec fn closes(u: Seq<u8>, l: LineRes) -> bool {
    match l {
        LineRes::Header(h, n) => 0 <= n && n + 2 == u.len() && u[n] == 0x0d && u[n + 1] == 0x0a,
        LineRes::Skip(n) => 0 <= n && n + 2 == u.len() && u[n] == 0x0d && u[n + 1] == 0x0a,
        _ => false,
    }
}
pub proof fn lemma_skip_completable(s: Seq<u8>, q: int, e: Error)
    requires 0 <= q <= s.len(), spec_skip(s, q, e) is Partial,
    ensures closes(s + comp_skip(s, q), spec_skip(s + comp_skip(s, q), q, e)), spec_skip(s + comp_skip(s, q), q, e) is Skip,
    decreases s.len() - q
{
    let t = comp_skip(s, q);
    lemma_append_index(s, t);
    if q >= s.len() {
        assert((s + t)[s.len() as int] == t[0]);
        assert((s + t)[s.len() as int + 1] == t[1]);
        assert((s + t)[s.len() as int + 2] == t[2]);
        lemma_skip_at_end(s, t, q, e);
    } else if s[q] == 0x0d {
        assert(q + 1 == s.len());
        assert((s + t)[q + 1] == t[0] && (s + t)[q + 2] == t[1] && (s + t)[q + 3] == t[2]);
    } else {
        lemma_skip_completable(s, q + 1, e);
    }
}
// scanning a dropped line from a position at or beyond the end of s continues into the appended bytes
pub proof fn lemma_skip_at_end(s: Seq<u8>, t: Seq<u8>, q: int, e: Error)
    requires q >= s.len(), t == lf_crlf(),
    ensures q == s.len() ==> spec_skip(s + t, q, e) == LineRes::Skip(q + 1),
{
    lemma_append_index(s, t);
    if q == s.len() { assert((s + t)[q] == t[0]); }
}

pub open spec fn comp_vlines(s: Seq<u8>, from: int, cfg: HCfg) -> Seq<u8>
    decreases s.len() - from
{
    let e = first_not(cls_hval(), s, from);
    if from < 0 || e < from || e >= s.len() { crlf_crlf() }
    else {
        let n = if s[e] == 0x0a { e + 1 } else { e + 2 };
        if s[e] == 0x0d && e + 1 >= s.len() { lf_crlf() }
        else if s[e] != 0x0d && s[e] != 0x0a { comp_skip(s, e) }
        else if cfg.fold && n >= s.len() { crlf() }
        else if cfg.fold && is_spht(s[n]) { comp_vlines(s, n, cfg) }
        else { Seq::empty() }
    }
}
pub proof fn lemma_vlines_completable(s: Seq<u8>, nlo: int, nhi: int, v0: int, from: int, cfg: HCfg)
    requires 0 <= from <= s.len(), spec_vlines(s, nlo, nhi, v0, from, cfg) is Partial,
    ensures closes(s + comp_vlines(s, from, cfg), spec_vlines(s + comp_vlines(s, from, cfg), nlo, nhi, v0, from, cfg)),
    decreases s.len() - from
{
    let t = comp_vlines(s, from, cfg);
    let u = s + t;
    lemma_append_index(s, t);
    lemma_first_not_props(cls_hval(), s, from);
    let e = first_not(cls_hval(), s, from);
    if e >= s.len() {
        lemma_run_then_stop(cls_hval(), s, t, from);
        assert(u[e] == t[0] && u[e + 1] == t[1] && u[e + 2] == t[2] && u[e + 3] == t[3]);
    } else {
        lemma_first_not_append(cls_hval(), s, t, from);
        assert(u[e] == s[e]);
        let n = if s[e] == 0x0a { e + 1 } else { e + 2 };
        if s[e] == 0x0d && e + 1 >= s.len() {
            assert(u[e + 1] == t[0] && u[e + 2] == t[1] && u[e + 3] == t[2]);
        } else if s[e] != 0x0d && s[e] != 0x0a {
            lemma_skip_completable(s, e, Error::HeaderValue);
        } else {
            if s[e] == 0x0d { assert(u[e + 1] == s[e + 1]); }
            if cfg.fold && n >= s.len() {
                assert(u[n] == t[0] && u[n + 1] == t[1]);
            } else if cfg.fold && is_spht(s[n]) {
                assert(u[n] == s[n]);
                lemma_vlines_completable(s, nlo, nhi, v0, n, cfg);
            }
        }
    }
}
pub open spec fn comp_ws(s: Seq<u8>, c: int, cfg: HCfg) -> Seq<u8>
    decreases s.len() - c
{
    if c < 0 || c >= s.len() { crlf_crlf() }
    else if is_spht(s[c]) { comp_ws(s, c + 1, cfg) }
    else if is_hval(s[c]) { comp_vlines(s, c, cfg) }
    else {
        let n = if s[c] == 0x0a { c + 1 } else { c + 2 };
        if s[c] == 0x0d && c + 1 >= s.len() { lf_crlf() }
        else if s[c] != 0x0d && s[c] != 0x0a { comp_skip(s, c) }
        else if cfg.fold && n >= s.len() { crlf() }
        else if cfg.fold && is_spht(s[n]) { comp_ws(s, n, cfg) }
        else { Seq::empty() }
    }
}
pub proof fn lemma_ws_completable(s: Seq<u8>, nlo: int, nhi: int, c: int, cfg: HCfg)
    requires 0 <= c <= s.len(), spec_ws(s, nlo, nhi, c, cfg) is Partial,
    ensures closes(s + comp_ws(s, c, cfg), spec_ws(s + comp_ws(s, c, cfg), nlo, nhi, c, cfg)),
    decreases s.len() - c
{
    let t = comp_ws(s, c, cfg);
    let u = s + t;
    lemma_append_index(s, t);
    if c >= s.len() {
        assert(u[c] == t[0] && u[c + 1] == t[1] && u[c + 2] == t[2] && u[c + 3] == t[3]);
    } else {
        assert(u[c] == s[c]);
        if is_spht(s[c]) { lemma_ws_completable(s, nlo, nhi, c + 1, cfg); }
        else if is_hval(s[c]) { lemma_vlines_completable(s, nlo, nhi, c, c, cfg); }
        else {
            let n = if s[c] == 0x0a { c + 1 } else { c + 2 };
            if s[c] == 0x0d && c + 1 >= s.len() {
                assert(u[c + 1] == t[0] && u[c + 2] == t[1] && u[c + 3] == t[2]);
            } else if s[c] != 0x0d && s[c] != 0x0a {
                lemma_skip_completable(s, c, Error::HeaderValue);
            } else {
                if s[c] == 0x0d { assert(u[c + 1] == s[c + 1]); }
                if cfg.fold && n >= s.len() {
                    assert(u[n] == t[0] && u[n + 1] == t[1]);
                } else if cfg.fold && is_spht(s[n]) {
                    assert(u[n] == s[n]);
                    lemma_ws_completable(s, nlo, nhi, n, cfg);
                }
            }
        }
    }
}
pub open spec fn comp_name_ws(s: Seq<u8>, q: int, cfg: HCfg) -> Seq<u8>
    decreases s.len() - q
{
    if q < 0 || q >= s.len() { colon_crlf_crlf() }
    else if !is_spht(s[q]) { comp_skip(s, q) }
    else if q + 1 >= s.len() { colon_crlf_crlf() }
    else if s[q + 1] == 0x3a { comp_ws(s, q + 2, cfg) }
    else { comp_name_ws(s, q + 1, cfg) }
}
pub proof fn lemma_name_ws_completable(s: Seq<u8>, nlo: int, nhi: int, q: int, cfg: HCfg)
    requires 0 <= q < s.len(), spec_name_ws(s, nlo, nhi, q, cfg) is Partial,
    ensures closes(s + comp_name_ws(s, q, cfg), spec_name_ws(s + comp_name_ws(s, q, cfg), nlo, nhi, q, cfg)),
    decreases s.len() - q
{
    let t = comp_name_ws(s, q, cfg);
    let u = s + t;
    lemma_append_index(s, t);
    assert(u[q] == s[q]);
    if !is_spht(s[q]) { lemma_skip_completable(s, q, Error::HeaderName); }
    else if q + 1 >= s.len() {
        assert(u[q + 1] == t[0] && u[q + 2] == t[1] && u[q + 3] == t[2] && u[q + 4] == t[3] && u[q + 5] == t[4]);
        reveal_with_fuel(spec_ws, 2);
    }
    else {
        assert(u[q + 1] == s[q + 1]);
        if s[q + 1] == 0x3a { lemma_ws_completable(s, nlo, nhi, q + 2, cfg); }
        else { lemma_name_ws_completable(s, nlo, nhi, q + 1, cfg); }
    }
}
pub open spec fn comp_line(s: Seq<u8>, p: int, first: bool, cfg: HCfg) -> Seq<u8> {
    if p < 0 || p >= s.len() { crlf() }
    else if s[p] == 0x0d { seq![0x0au8] }
    else if !is_tchar(s[p]) { comp_skip(s, p) }
    else {
        let e = first_not(cls_tchar(), s, p);
        if e >= s.len() { colon_crlf_crlf() }
        else if s[e] == 0x3a { comp_ws(s, e + 1, cfg) }
        else if cfg.sp_after_name { comp_name_ws(s, e, cfg) }
        else { comp_skip(s, e) }
    }
}
pub proof fn lemma_line_completable(s: Seq<u8>, p: int, first: bool, cfg: HCfg)
    requires 0 <= p <= s.len(), spec_line(s, p, first, cfg) is Partial,
    ensures ({
        let u = s + comp_line(s, p, first, cfg);
        let l = spec_line(u, p, first, cfg);
        &&& (l == LineRes::End(u.len() as int) || closes(u, l))
        &&& (l is Header ==> p < s.len() && is_tchar(s[p]))
    })
{
    let t = comp_line(s, p, first, cfg);
    let u = s + t;
    lemma_append_index(s, t);
    if p >= s.len() {
        assert(u[p] == t[0] && u[p + 1] == t[1]);
    } else {
        assert(u[p] == s[p]);
        if s[p] == 0x0d { assert(u[p + 1] == t[0]); }
        else if !is_tchar(s[p]) { lemma_skip_completable(s, p, Error::HeaderName); }
        else {
            lemma_first_not_props(cls_tchar(), s, p);
            let e = first_not(cls_tchar(), s, p);
            if e >= s.len() {
                lemma_run_then_stop(cls_tchar(), s, t, p);
                assert(u[e] == t[0] && u[e + 1] == t[1] && u[e + 2] == t[2] && u[e + 3] == t[3] && u[e + 4] == t[4]);
                reveal_with_fuel(spec_ws, 2);
            } else {
                lemma_first_not_append(cls_tchar(), s, t, p);
                assert(u[e] == s[e]);
                if s[e] == 0x3a { lemma_ws_completable(s, p, e, e + 1, cfg); }
                else if cfg.sp_after_name { lemma_name_ws_completable(s, p, e, e, cfg); }
                else { lemma_skip_completable(s, e, Error::HeaderName); }
            }
        }
    }
}
// the second exception of C11: the array is already full and a further header line (one that starts with a name byte) is open
pub open spec fn full_and_open(s: Seq<u8>, p: int, acc: Seq<SHdr>, cfg: HCfg, cap: int) -> bool
    decreases s.len() - p
    when p >= 0
    via full_and_open_decreases
{
    match spec_line(s, p, acc.len() == 0, cfg) {
        LineRes::Header(h, n) => acc.len() < cap && full_and_open(s, n, acc.push(h), cfg, cap),
        LineRes::Skip(n) => full_and_open(s, n, acc, cfg, cap),
        LineRes::Partial => acc.len() >= cap && p < s.len() && is_tchar(s[p]),
        _ => false,
    }
}
#[via_fn]
proof fn full_and_open_decreases(s: Seq<u8>, p: int, acc: Seq<SHdr>, cfg: HCfg, cap: int) {
    lemma_line_progress(s, p, acc.len() == 0, cfg);
}
pub open spec fn comp_hdrs(s: Seq<u8>, p: int, acc: Seq<SHdr>, cfg: HCfg, cap: int) -> Seq<u8>
    decreases s.len() - p
    when p >= 0
    via comp_hdrs_decreases
{
    match spec_line(s, p, acc.len() == 0, cfg) {
        LineRes::Header(h, n) => if acc.len() >= cap { Seq::empty() } else { comp_hdrs(s, n, acc.push(h), cfg, cap) },
        LineRes::Skip(n) => comp_hdrs(s, n, acc, cfg, cap),
        LineRes::Partial => comp_line(s, p, acc.len() == 0, cfg),
        _ => Seq::empty(),
    }
}
#[via_fn]
proof fn comp_hdrs_decreases(s: Seq<u8>, p: int, acc: Seq<SHdr>, cfg: HCfg, cap: int) {
    lemma_line_progress(s, p, acc.len() == 0, cfg);
}
// @tags C11
pub proof fn lemma_hdrs_completable(s: Seq<u8>, p: int, acc: Seq<SHdr>, cfg: HCfg, cap: int)
    requires 0 <= p <= s.len(), spec_hdrs(s, p, acc, cfg, cap) is Partial, !full_and_open(s, p, acc, cfg, cap),
    ensures spec_hdrs(s + comp_hdrs(s, p, acc, cfg, cap), p, acc, cfg, cap) is Complete,
    decreases s.len() - p
{
    let t = comp_hdrs(s, p, acc, cfg, cap);
    let u = s + t;
    let first = acc.len() == 0;
    lemma_line_progress(s, p, first, cfg);
    match spec_line(s, p, first, cfg) {
        LineRes::Header(h, n) => {
            lemma_line_stable(s, t, p, first, cfg);
            lemma_hdrs_completable(s, n, acc.push(h), cfg, cap);
        }
        LineRes::Skip(n) => {
            lemma_line_stable(s, t, p, first, cfg);
            lemma_hdrs_completable(s, n, acc, cfg, cap);
        }
        LineRes::Partial => {
            reveal_with_fuel(spec_hdrs, 3);
            lemma_line_completable(s, p, first, cfg);
            lemma_line_progress(u, p, first, cfg);
            match spec_line(u, p, first, cfg) {
                LineRes::Header(h, n) => { lemma_line_progress(u, n, false, cfg); }
                LineRes::Skip(n) => { lemma_line_progress(u, n, first, cfg); }
                _ => {}
            }
        }
        _ => {}
    }
}

// ---- start line: canonical tails and their evaluation at a symbolic offset
pub open spec fn t_ver() -> Seq<u8> { seq![0x48u8, 0x54, 0x54, 0x50, 0x2f, 0x31, 0x2e, 0x31, 0x0d, 0x0a, 0x0d, 0x0a] }   // "HTTP/1.1\r\n\r\n"
pub open spec fn t_uri() -> Seq<u8> { seq![0x2fu8, 0x20] + t_ver() }                                                    // "/ HTTP/1.1\r\n\r\n"
pub open spec fn t_sp_uri() -> Seq<u8> { seq![0x20u8] + t_uri() }                                                        // " / HTTP/1.1\r\n\r\n"
pub open spec fn t_all() -> Seq<u8> { seq![0x41u8] + t_sp_uri() }                                                        // "A / HTTP/1.1\r\n\r\n"
pub open spec fn tail_is(u: Seq<u8>, i: int, t: Seq<u8>) -> bool { 0 <= i && i + t.len() == u.len() && u.subrange(i, u.len() as int) == t }

pub proof fn lemma_tail_index(u: Seq<u8>, i: int, t: Seq<u8>)
    requires tail_is(u, i, t),
    ensures forall|k: int| 0 <= k < t.len() ==> #[trigger] u[i + k] == t[k],
{
    assert forall|k: int| 0 <= k < t.len() implies #[trigger] u[i + k] == t[k] by { assert(u.subrange(i, u.len() as int)[k] == u[i + k]); }
}
// from the empty line that ends the head: the header block at i is just CRLF
pub proof fn lemma_tail_hdrs(u: Seq<u8>, i: int, cfg: HCfg, cap: int)
    requires tail_is(u, i, crlf()),
    ensures spec_hdrs(u, i, Seq::empty(), cfg, cap) == SRes::Complete(Seq::<SHdr>::empty(), i + 2)
{
    lemma_tail_index(u, i, crlf());
    assert(u[i + 0] == 0x0d && u[i + 1] == 0x0a);
}
pub proof fn lemma_tail_eol(u: Seq<u8>, i: int, e: Error, cfg: HCfg, cap: int)
    requires tail_is(u, i, crlf_crlf()),
    ensures spec_eol(u, i, e) == SRes::Complete((), i + 2), spec_hdrs(u, i + 2, Seq::empty(), cfg, cap) == SRes::Complete(Seq::<SHdr>::empty(), i + 4)
{
    lemma_tail_index(u, i, crlf_crlf());
    assert(u[i + 0] == 0x0d && u[i + 1] == 0x0a && u[i + 2] == 0x0d && u[i + 3] == 0x0a);
    assert(u.subrange(i + 2, u.len() as int) =~= crlf());
    lemma_tail_hdrs(u, i + 2, cfg, cap);
}
pub proof fn lemma_tail_ver(u: Seq<u8>, i: int, multi: bool, cfg: HCfg, cap: int)
    requires tail_is(u, i, t_ver()),
    ensures opt_spaces(multi, u, i) == SRes::Complete((), i), spec_version(u, i) == SRes::Complete(1u8, i + 8),
        spec_eol(u, i + 8, Error::NewLine) == SRes::Complete((), i + 10),
        spec_hdrs(u, i + 10, Seq::empty(), cfg, cap) == SRes::Complete(Seq::<SHdr>::empty(), i + 12)
{
    lemma_tail_index(u, i, t_ver());
    assert(u[i + 0] == 0x48 && u[i + 1] == 0x54 && u[i + 2] == 0x54 && u[i + 3] == 0x50 && u[i + 4] == 0x2f && u[i + 5] == 0x31 && u[i + 6] == 0x2e && u[i + 7] == 0x31);
    lemma_first_not_char(cls_sp(), u, i, i);
    assert(agrees_lit(u, i, 7));
    assert(u.subrange(i + 8, u.len() as int) =~= crlf_crlf());
    lemma_tail_eol(u, i + 8, Error::NewLine, cfg, cap);
}
pub proof fn lemma_tail_uri(u: Seq<u8>, i: int, multi: bool, cfg: HCfg, cap: int)
    requires tail_is(u, i, t_uri()),
    ensures opt_spaces(multi, u, i) == SRes::Complete((), i), spec_uri(u, i) == SRes::Complete((i, i + 1), i + 2),
        opt_spaces(multi, u, i + 2) == SRes::Complete((), i + 2), spec_version(u, i + 2) == SRes::Complete(1u8, i + 10),
        spec_eol(u, i + 10, Error::NewLine) == SRes::Complete((), i + 12),
        spec_hdrs(u, i + 12, Seq::empty(), cfg, cap) == SRes::Complete(Seq::<SHdr>::empty(), i + 14)
{
    lemma_tail_index(u, i, t_uri());
    assert(u[i + 0] == 0x2f && u[i + 1] == 0x20);
    lemma_first_not_char(cls_sp(), u, i, i);
    assert(cls_uri()(u[i]));
    lemma_first_not_char(cls_uri(), u, i, i + 1);
    assert(u.subrange(i, i + 1) =~= seq![0x2fu8]);
    assert(all_ascii(seq![0x2fu8]));
    lemma_ascii_is_utf8(seq![0x2fu8]);
    assert(t_uri().subrange(2, t_uri().len() as int) =~= t_ver());
    assert(u.subrange(i + 2, u.len() as int) =~= u.subrange(i, u.len() as int).subrange(2, t_uri().len() as int));
    lemma_tail_ver(u, i + 2, multi, cfg, cap);
}
pub proof fn lemma_tail_all(u: Seq<u8>, i: int, multi: bool, cfg: HCfg, cap: int)
    requires tail_is(u, i, t_all()),
    ensures spec_token(u, i) == SRes::Complete((i, i + 1), i + 2), tail_is(u, i + 2, t_uri()),
{
    lemma_tail_index(u, i, t_all());
    assert(u[i + 0] == 0x41 && u[i + 1] == 0x20);
    assert(cls_tchar()(u[i]));
    lemma_first_not_char(cls_tchar(), u, i, i + 1);
    assert(t_all().subrange(2, t_all().len() as int) =~= t_uri());
    assert(u.subrange(i + 2, u.len() as int) =~= u.subrange(i, u.len() as int).subrange(2, t_all().len() as int));
}

pub open spec fn comp_el(s: Seq<u8>, i: int) -> Seq<u8>
    decreases s.len() - i
{
    if i < 0 || i >= s.len() { t_all() }
    else if s[i] == 0x0d {
        if i + 1 >= s.len() { seq![0x0au8] + t_all() } else if s[i + 1] == 0x0a { comp_el(s, i + 2) } else { Seq::empty() }
    }
    else if s[i] == 0x0a { comp_el(s, i + 1) }
    else { Seq::empty() }
}
pub proof fn lemma_el_completable(s: Seq<u8>, i: int)
    requires 0 <= i <= s.len(), spec_empty_lines(s, i) is Partial,
    ensures spec_empty_lines(s + comp_el(s, i), i) matches SRes::Complete(_, k) && tail_is(s + comp_el(s, i), k, t_all()),
    decreases s.len() - i
{
    let t = comp_el(s, i);
    let u = s + t;
    lemma_append_index(s, t);
    if i >= s.len() {
        assert(u[i] == t[0]);
        assert(u.subrange(i, u.len() as int) =~= t_all());
    } else {
        assert(u[i] == s[i]);
        if s[i] == 0x0d {
            if i + 1 >= s.len() {
                assert(u[i + 1] == t[0]);
                assert(u[i + 2] == t[1]);
                assert(u.subrange(i + 2, u.len() as int) =~= t_all());
                reveal_with_fuel(spec_empty_lines, 2);
            } else { assert(u[i + 1] == s[i + 1]); lemma_el_completable(s, i + 2); }
        } else { lemma_el_completable(s, i + 1); }
    }
}
pub open spec fn lit8() -> Seq<u8> { seq![0x48u8, 0x54, 0x54, 0x50, 0x2f, 0x31, 0x2e, 0x31] }
pub open spec fn comp_ver(s: Seq<u8>, c: int) -> Seq<u8> {
    let avail = s.len() - c;
    if 0 <= avail < 8 { lit8().subrange(avail, 8) + crlf_crlf() } else { Seq::empty() }
}
pub proof fn lemma_ver_completable(s: Seq<u8>, c: int)
    requires 0 <= c <= s.len(), spec_version(s, c) is Partial,
    ensures spec_version(s + comp_ver(s, c), c) == SRes::Complete(1u8, c + 8), tail_is(s + comp_ver(s, c), c + 8, crlf_crlf()),
{
    let t = comp_ver(s, c);
    let u = s + t;
    let avail = s.len() - c;
    lemma_append_index(s, t);
    assert(avail < 8);
    let m = if avail < 7 { avail } else { 7 };
    assert(agrees_lit(s, c, m));
    assert forall|k: int| 0 <= k < 8 implies #[trigger] u[c + k] == lit8()[k] by {
        if k < avail { assert(u[c + k] == s[c + k]); if k < 7 { assert(s[c + k] == http1_lit()[k]); } }
        else { assert(u[c + k] == t[k - avail]); assert(t[k - avail] == lit8().subrange(avail, 8)[k - avail]); }
    }
    // with exactly 7 bytes received the 8th comes from the completion; fewer than 7: the literal's own bytes
    assert(agrees_lit(u, c, 7)) by { assert forall|k: int| 0 <= k < 7 implies #[trigger] u[c + k] == http1_lit()[k] by { assert(u[c + k] == lit8()[k]); } }
    assert(u[c + 7] == lit8()[7]);
    assert(u.subrange(c + 8, u.len() as int) =~= crlf_crlf());
}
pub open spec fn comp_eol(s: Seq<u8>, c: int) -> Seq<u8> { if c >= s.len() { crlf_crlf() } else { lf_crlf() } }
pub proof fn lemma_eol_completable(s: Seq<u8>, c: int, e: Error)
    requires 0 <= c <= s.len(), spec_eol(s, c, e) is Partial,
    ensures spec_eol(s + comp_eol(s, c), c, e) matches SRes::Complete(_, k) && tail_is(s + comp_eol(s, c), k, crlf()),
{
    let t = comp_eol(s, c);
    let u = s + t;
    lemma_append_index(s, t);
    if c >= s.len() {
        assert(u[c] == t[0] && u[c + 1] == t[1]);
        assert(u.subrange(c + 2, u.len() as int) =~= crlf());
    } else {
        assert(u[c] == s[c]);
        assert(u[c + 1] == t[0]);
        assert(u.subrange(c + 2, u.len() as int) =~= crlf());
    }
}
pub open spec fn req_hcfg(sbf: bool, ign: bool) -> HCfg { HCfg { sp_after_name: false, fold: false, sp_before_first: sbf, ignore: ign } }
// the completion of a Partial request, stage by stage
pub open spec fn comp_request(s: Seq<u8>, multi: bool, sbf: bool, ign: bool, cap: int) -> Seq<u8> {
    match spec_empty_lines(s, 0) {
        SRes::Complete(_, c0) => match spec_token(s, c0) {
            SRes::Complete(m, c1) => match opt_spaces(multi, s, c1) {
                SRes::Complete(_, c2) => match spec_uri(s, c2) {
                    SRes::Complete(p, c3) => match opt_spaces(multi, s, c3) {
                        SRes::Complete(_, c4) => match spec_version(s, c4) {
                            SRes::Complete(v, c5) => match spec_eol(s, c5, Error::NewLine) {
                                SRes::Complete(_, c6) => comp_hdrs(s, c6, Seq::empty(), req_hcfg(sbf, ign), cap),
                                _ => comp_eol(s, c5),
                            },
                            _ => comp_ver(s, c4),
                        },
                        _ => t_ver(),
                    },
                    _ => t_uri(),
                },
                _ => t_uri(),
            },
            _ => t_sp_uri(),
        },
        _ => comp_el(s, 0),
    }
}
// the two exceptions of C11, as predicates on the buffer
pub open spec fn req_exception(s: Seq<u8>, multi: bool, sbf: bool, ign: bool, cap: int) -> bool {
    match spec_empty_lines(s, 0) {
        SRes::Complete(_, c0) => match spec_token(s, c0) {
            SRes::Complete(m, c1) => match opt_spaces(multi, s, c1) {
                SRes::Complete(_, c2) => match spec_uri(s, c2) {
                    SRes::Complete(p, c3) => match opt_spaces(multi, s, c3) {
                        SRes::Complete(_, c4) => match spec_version(s, c4) {
                            SRes::Complete(v, c5) => match spec_eol(s, c5, Error::NewLine) {
                                // header capacity already full and a further header line open
                                SRes::Complete(_, c6) => full_and_open(s, c6, Seq::empty(), req_hcfg(sbf, ign), cap),
                                _ => false,
                            },
                            _ => false,
                        },
                        _ => false,
                    },
                    // target not yet terminated and what is there cannot be completed to valid UTF-8 by closing it here
                    SRes::Partial => !valid_utf8(s.subrange(c2, s.len() as int).push(0x2fu8)),
                    _ => false,
                },
                _ => false,
            },
            _ => false,
        },
        _ => false,
    }
}
pub open spec fn at<T>(r: SRes<T>, c: int) -> bool { r is Complete && r->Complete_1 == c }
// one lemma per stage at which the request oracle can say Partial (keeps each query small)
pub proof fn lemma_reqc_el(s: Seq<u8>, multi: bool, sbf: bool, ign: bool, cap: int)
    requires spec_empty_lines(s, 0) is Partial,
    ensures spec_request(s + comp_el(s, 0), multi, sbf, ign, cap).res is Complete
{
    let u = s + comp_el(s, 0);
    let cfg = req_hcfg(sbf, ign);
    lemma_el_completable(s, 0);
    let k = spec_empty_lines(u, 0)->Complete_1;
    lemma_tail_all(u, k, multi, cfg, cap);
    lemma_tail_uri(u, k + 2, multi, cfg, cap);
}
pub proof fn lemma_reqc_token(s: Seq<u8>, multi: bool, sbf: bool, ign: bool, cap: int, c0: int)
    requires at(spec_empty_lines(s, 0), c0), spec_token(s, c0) is Partial,
    ensures spec_request(s + t_sp_uri(), multi, sbf, ign, cap).res is Complete
{
    let t = t_sp_uri();
    let u = s + t;
    let cfg = req_hcfg(sbf, ign);
    lemma_append_index(s, t);
    lemma_empty_lines_bounds(s, 0);
    lemma_empty_lines_stable(s, t, 0);
    lemma_first_not_props(cls_tchar(), s, c0);
    assert(t[0] == 0x20);
    lemma_run_then_stop(cls_tchar(), s, t, c0);
    assert(u[s.len() as int] == t[0]);
    assert(t_sp_uri().subrange(1, t_sp_uri().len() as int) =~= t_uri());
    assert(u.subrange(s.len() as int + 1, u.len() as int) =~= t_uri());
    lemma_tail_uri(u, s.len() as int + 1, multi, cfg, cap);
    assert(spec_token(u, c0) == SRes::Complete((c0, s.len() as int), s.len() as int + 1));
}
pub proof fn lemma_reqc_sp1(s: Seq<u8>, sbf: bool, ign: bool, cap: int, c0: int, m: (int, int), c1: int)
    requires at(spec_empty_lines(s, 0), c0), spec_token(s, c0) == SRes::Complete(m, c1), spec_spaces(s, c1) is Partial,
    ensures spec_request(s + t_uri(), true, sbf, ign, cap).res is Complete
{
    let t = t_uri();
    let u = s + t;
    let cfg = req_hcfg(sbf, ign);
    lemma_append_index(s, t);
    lemma_empty_lines_bounds(s, 0);
    lemma_empty_lines_stable(s, t, 0);
    lemma_first_not_props(cls_tchar(), s, c0);
    lemma_token_stable(s, t, c0);
    lemma_first_not_props(cls_sp(), s, c1);
    assert(t[0] == 0x2f);
    lemma_run_then_stop(cls_sp(), s, t, c1);
    assert(u.subrange(s.len() as int, u.len() as int) =~= t_uri());
    lemma_tail_uri(u, s.len() as int, true, cfg, cap);
    assert(spec_spaces(u, c1) == SRes::Complete((), s.len() as int));
}
pub proof fn lemma_reqc_uri(s: Seq<u8>, multi: bool, sbf: bool, ign: bool, cap: int, c0: int, m: (int, int), c1: int, c2: int)
    requires at(spec_empty_lines(s, 0), c0), spec_token(s, c0) == SRes::Complete(m, c1), at(opt_spaces(multi, s, c1), c2),
        spec_uri(s, c2) is Partial, valid_utf8(s.subrange(c2, s.len() as int).push(0x2fu8)),
    ensures spec_request(s + t_uri(), multi, sbf, ign, cap).res is Complete
{
    let t = t_uri();
    let u = s + t;
    let cfg = req_hcfg(sbf, ign);
    lemma_append_index(s, t);
    lemma_empty_lines_bounds(s, 0);
    lemma_empty_lines_stable(s, t, 0);
    lemma_first_not_props(cls_tchar(), s, c0);
    lemma_token_stable(s, t, c0);
    if multi { lemma_first_not_props(cls_sp(), s, c1); lemma_spaces_stable(s, t, c1); }
    lemma_first_not_props(cls_uri(), s, c2);
    assert(t[0] == 0x2f && t[1] == 0x20);
    lemma_run_one_more(cls_uri(), s, t, c2);
    let j = s.len() as int + 1;
    assert(u[j] == t[1]);
    assert(u.subrange(c2, j) =~= s.subrange(c2, s.len() as int).push(0x2fu8));
    assert(t_uri().subrange(2, t_uri().len() as int) =~= t_ver());
    assert(u.subrange(j + 1, u.len() as int) =~= t_ver());
    lemma_tail_ver(u, j + 1, multi, cfg, cap);
    assert(spec_uri(u, c2) == SRes::Complete((c2, j), j + 1));
}
pub proof fn lemma_reqc_sp2(s: Seq<u8>, sbf: bool, ign: bool, cap: int, c0: int, m: (int, int), c1: int, c2: int, p: (int, int), c3: int)
    requires at(spec_empty_lines(s, 0), c0), spec_token(s, c0) == SRes::Complete(m, c1), at(spec_spaces(s, c1), c2),
        spec_uri(s, c2) == SRes::Complete(p, c3), spec_spaces(s, c3) is Partial,
    ensures spec_request(s + t_ver(), true, sbf, ign, cap).res is Complete
{
    let t = t_ver();
    let u = s + t;
    let cfg = req_hcfg(sbf, ign);
    lemma_append_index(s, t);
    lemma_empty_lines_bounds(s, 0);
    lemma_empty_lines_stable(s, t, 0);
    lemma_first_not_props(cls_tchar(), s, c0);
    lemma_token_stable(s, t, c0);
    lemma_first_not_props(cls_sp(), s, c1);
    lemma_spaces_stable(s, t, c1);
    lemma_first_not_props(cls_uri(), s, c2);
    lemma_uri_stable(s, t, c2);
    lemma_first_not_props(cls_sp(), s, c3);
    assert(t[0] == 0x48);
    lemma_run_then_stop(cls_sp(), s, t, c3);
    assert(u.subrange(s.len() as int, u.len() as int) =~= t_ver());
    lemma_tail_ver(u, s.len() as int, true, cfg, cap);
    assert(spec_spaces(u, c3) == SRes::Complete((), s.len() as int));
}
pub proof fn lemma_reqc_ver(s: Seq<u8>, multi: bool, sbf: bool, ign: bool, cap: int, c0: int, m: (int, int), c1: int, c2: int, p: (int, int), c3: int, c4: int)
    requires at(spec_empty_lines(s, 0), c0), spec_token(s, c0) == SRes::Complete(m, c1), at(opt_spaces(multi, s, c1), c2),
        spec_uri(s, c2) == SRes::Complete(p, c3), at(opt_spaces(multi, s, c3), c4), spec_version(s, c4) is Partial,
    ensures spec_request(s + comp_ver(s, c4), multi, sbf, ign, cap).res is Complete
{
    let t = comp_ver(s, c4);
    let u = s + t;
    let cfg = req_hcfg(sbf, ign);
    lemma_append_index(s, t);
    lemma_empty_lines_bounds(s, 0);
    lemma_empty_lines_stable(s, t, 0);
    lemma_first_not_props(cls_tchar(), s, c0);
    lemma_token_stable(s, t, c0);
    if multi { lemma_first_not_props(cls_sp(), s, c1); lemma_spaces_stable(s, t, c1); }
    lemma_first_not_props(cls_uri(), s, c2);
    lemma_uri_stable(s, t, c2);
    if multi { lemma_first_not_props(cls_sp(), s, c3); lemma_spaces_stable(s, t, c3); }
    lemma_ver_completable(s, c4);
    lemma_tail_eol(u, c4 + 8, Error::NewLine, cfg, cap);
}
pub proof fn lemma_reqc_eol(s: Seq<u8>, multi: bool, sbf: bool, ign: bool, cap: int, c0: int, m: (int, int), c1: int, c2: int, p: (int, int), c3: int, c4: int, v: u8, c5: int)
    requires at(spec_empty_lines(s, 0), c0), spec_token(s, c0) == SRes::Complete(m, c1), at(opt_spaces(multi, s, c1), c2),
        spec_uri(s, c2) == SRes::Complete(p, c3), at(opt_spaces(multi, s, c3), c4), spec_version(s, c4) == SRes::Complete(v, c5),
        spec_eol(s, c5, Error::NewLine) is Partial,
    ensures spec_request(s + comp_eol(s, c5), multi, sbf, ign, cap).res is Complete
{
    let t = comp_eol(s, c5);
    let u = s + t;
    let cfg = req_hcfg(sbf, ign);
    lemma_append_index(s, t);
    lemma_empty_lines_bounds(s, 0);
    lemma_empty_lines_stable(s, t, 0);
    lemma_first_not_props(cls_tchar(), s, c0);
    lemma_token_stable(s, t, c0);
    if multi { lemma_first_not_props(cls_sp(), s, c1); lemma_spaces_stable(s, t, c1); }
    lemma_first_not_props(cls_uri(), s, c2);
    lemma_uri_stable(s, t, c2);
    if multi { lemma_first_not_props(cls_sp(), s, c3); lemma_spaces_stable(s, t, c3); }
    lemma_version_stable(s, t, c4);
    lemma_eol_completable(s, c5, Error::NewLine);
    let k = spec_eol(u, c5, Error::NewLine)->Complete_1;
    lemma_tail_hdrs(u, k, cfg, cap);
}
pub proof fn lemma_reqc_hdrs(s: Seq<u8>, multi: bool, sbf: bool, ign: bool, cap: int, c0: int, m: (int, int), c1: int, c2: int, p: (int, int), c3: int, c4: int, v: u8, c5: int, c6: int)
    requires at(spec_empty_lines(s, 0), c0), spec_token(s, c0) == SRes::Complete(m, c1), at(opt_spaces(multi, s, c1), c2),
        spec_uri(s, c2) == SRes::Complete(p, c3), at(opt_spaces(multi, s, c3), c4), spec_version(s, c4) == SRes::Complete(v, c5),
        at(spec_eol(s, c5, Error::NewLine), c6),
        spec_hdrs(s, c6, Seq::empty(), req_hcfg(sbf, ign), cap) is Partial, !full_and_open(s, c6, Seq::empty(), req_hcfg(sbf, ign), cap),
    ensures spec_request(s + comp_hdrs(s, c6, Seq::empty(), req_hcfg(sbf, ign), cap), multi, sbf, ign, cap).res is Complete
{
    let cfg = req_hcfg(sbf, ign);
    let t = comp_hdrs(s, c6, Seq::empty(), cfg, cap);
    let u = s + t;
    lemma_append_index(s, t);
    lemma_empty_lines_bounds(s, 0);
    lemma_empty_lines_stable(s, t, 0);
    lemma_first_not_props(cls_tchar(), s, c0);
    lemma_token_stable(s, t, c0);
    if multi { lemma_first_not_props(cls_sp(), s, c1); lemma_spaces_stable(s, t, c1); }
    lemma_first_not_props(cls_uri(), s, c2);
    lemma_uri_stable(s, t, c2);
    if multi { lemma_first_not_props(cls_sp(), s, c3); lemma_spaces_stable(s, t, c3); }
    lemma_version_stable(s, t, c4);
    lemma_eol_stable(s, t, c5, Error::NewLine);
    lemma_hdrs_completable(s, c6, Seq::empty(), cfg, cap);
}
// @tags C11
pub proof fn lemma_request_completable(s: Seq<u8>, multi: bool, sbf: bool, ign: bool, cap: int)
    requires spec_request(s, multi, sbf, ign, cap).res is Partial, !req_exception(s, multi, sbf, ign, cap),
    ensures spec_request(s + comp_request(s, multi, sbf, ign, cap), multi, sbf, ign, cap).res is Complete
{
    match spec_empty_lines(s, 0) {
        SRes::Complete(_, c0) => match spec_token(s, c0) {
            SRes::Complete(m, c1) => match opt_spaces(multi, s, c1) {
                SRes::Complete(_, c2) => match spec_uri(s, c2) {
                    SRes::Complete(p, c3) => match opt_spaces(multi, s, c3) {
                        SRes::Complete(_, c4) => match spec_version(s, c4) {
                            SRes::Complete(v, c5) => match spec_eol(s, c5, Error::NewLine) {
                                SRes::Complete(_, c6) => { lemma_reqc_hdrs(s, multi, sbf, ign, cap, c0, m, c1, c2, p, c3, c4, v, c5, c6); }
                                _ => { lemma_reqc_eol(s, multi, sbf, ign, cap, c0, m, c1, c2, p, c3, c4, v, c5); }
                            },
                            _ => { lemma_reqc_ver(s, multi, sbf, ign, cap, c0, m, c1, c2, p, c3, c4); }
                        },
                        _ => { lemma_reqc_sp2(s, sbf, ign, cap, c0, m, c1, c2, p, c3); }
                    },
                    _ => { lemma_reqc_uri(s, multi, sbf, ign, cap, c0, m, c1, c2); }
                },
                _ => { lemma_reqc_sp1(s, sbf, ign, cap, c0, m, c1); }
            },
            _ => { lemma_reqc_token(s, multi, sbf, ign, cap, c0); }
        },
        _ => { lemma_reqc_el(s, multi, sbf, ign, cap); }
    }
}
// ---- response: canonical tails
pub open spec fn r_code() -> Seq<u8> { seq![0x32u8, 0x30, 0x30, 0x0d, 0x0a, 0x0d, 0x0a] }                 // "200\r\n\r\n"
pub open spec fn r_sp_code() -> Seq<u8> { seq![0x20u8] + r_code() }                                        // " 200\r\n\r\n"
pub open spec fn r_all() -> Seq<u8> { lit8() + r_sp_code() }                                               // "HTTP/1.1 200\r\n\r\n"
pub open spec fn resp_hcfg(san: bool, fold: bool, sbf: bool, ign: bool) -> HCfg { HCfg { sp_after_name: san, fold: fold, sp_before_first: sbf, ignore: ign } }

// after the code: the line end, then the empty line
pub proof fn lemma_rtail_after_code(u: Seq<u8>, i: int, multi: bool, cfg: HCfg, cap: int)
    requires tail_is(u, i, crlf_crlf()),
    ensures spec_after_code(u, i, multi) == SRes::Complete((i + 2, i + 2, false), i + 2),
        spec_hdrs(u, i + 2, Seq::empty(), cfg, cap) == SRes::Complete(Seq::<SHdr>::empty(), i + 4)
{
    lemma_tail_eol(u, i, Error::Status, cfg, cap);
    lemma_tail_index(u, i, crlf_crlf());
    assert(u[i + 0] == 0x0d);
}
pub proof fn lemma_rtail_code(u: Seq<u8>, i: int, multi: bool, cfg: HCfg, cap: int)
    requires tail_is(u, i, r_code()),
    ensures opt_spaces(multi, u, i) == SRes::Complete((), i), spec_code(u, i) == SRes::Complete(200u16, i + 3), tail_is(u, i + 3, crlf_crlf()),
{
    lemma_tail_index(u, i, r_code());
    assert(u[i + 0] == 0x32 && u[i + 1] == 0x30 && u[i + 2] == 0x30);
    lemma_first_not_char(cls_sp(), u, i, i);
    assert(r_code().subrange(3, 7) =~= crlf_crlf());
    assert(u.subrange(i + 3, u.len() as int) =~= u.subrange(i, u.len() as int).subrange(3, 7));
}
pub proof fn lemma_rtail_sp_code(u: Seq<u8>, i: int)
    requires tail_is(u, i, r_sp_code()),
    ensures one_sp(u, i, Error::Version) == SRes::Complete((), i + 1), tail_is(u, i + 1, r_code()),
{
    lemma_tail_index(u, i, r_sp_code());
    assert(u[i + 0] == 0x20);
    assert(r_sp_code().subrange(1, 8) =~= r_code());
    assert(u.subrange(i + 1, u.len() as int) =~= u.subrange(i, u.len() as int).subrange(1, 8));
}
pub proof fn lemma_rtail_all(u: Seq<u8>, i: int)
    requires tail_is(u, i, r_all()),
    ensures spec_version(u, i) == SRes::Complete(1u8, i + 8), tail_is(u, i + 8, r_sp_code()),
{
    lemma_tail_index(u, i, r_all());
    assert(u[i + 0] == 0x48 && u[i + 1] == 0x54 && u[i + 2] == 0x54 && u[i + 3] == 0x50 && u[i + 4] == 0x2f && u[i + 5] == 0x31 && u[i + 6] == 0x2e && u[i + 7] == 0x31);
    assert(agrees_lit(u, i, 7));
    assert(r_all().subrange(8, 16) =~= r_sp_code());
    assert(u.subrange(i + 8, u.len() as int) =~= u.subrange(i, u.len() as int).subrange(8, 16));
}
// the whole remaining response from the SP after the version
pub proof fn lemma_rtail_chain(u: Seq<u8>, i: int, multi: bool, cfg: HCfg, cap: int)
    requires tail_is(u, i, r_code()),
    ensures opt_spaces(multi, u, i) == SRes::Complete((), i), spec_code(u, i) == SRes::Complete(200u16, i + 3),
        spec_after_code(u, i + 3, multi) == SRes::Complete((i + 5, i + 5, false), i + 5),
        spec_hdrs(u, i + 5, Seq::empty(), cfg, cap) == SRes::Complete(Seq::<SHdr>::empty(), i + 7)
{
    lemma_rtail_code(u, i, multi, cfg, cap);
    lemma_rtail_after_code(u, i + 3, multi, cfg, cap);
}

pub open spec fn comp_el_r(s: Seq<u8>, i: int) -> Seq<u8>
    decreases s.len() - i
{
    if i < 0 || i >= s.len() { r_all() }
    else if s[i] == 0x0d {
        if i + 1 >= s.len() { seq![0x0au8] + r_all() } else if s[i + 1] == 0x0a { comp_el_r(s, i + 2) } else { Seq::empty() }
    }
    else if s[i] == 0x0a { comp_el_r(s, i + 1) }
    else { Seq::empty() }
}
pub proof fn lemma_el_r_completable(s: Seq<u8>, i: int)
    requires 0 <= i <= s.len(), spec_empty_lines(s, i) is Partial,
    ensures spec_empty_lines(s + comp_el_r(s, i), i) matches SRes::Complete(_, k) && tail_is(s + comp_el_r(s, i), k, r_all()),
    decreases s.len() - i
{
    let t = comp_el_r(s, i);
    let u = s + t;
    lemma_append_index(s, t);
    if i >= s.len() {
        assert(u[i] == t[0]);
        assert(u.subrange(i, u.len() as int) =~= r_all());
    } else {
        assert(u[i] == s[i]);
        if s[i] == 0x0d {
            if i + 1 >= s.len() {
                assert(u[i + 1] == t[0]);
                assert(u[i + 2] == t[1]);
                assert(u.subrange(i + 2, u.len() as int) =~= r_all());
                reveal_with_fuel(spec_empty_lines, 2);
            } else { assert(u[i + 1] == s[i + 1]); lemma_el_r_completable(s, i + 2); }
        } else { lemma_el_r_completable(s, i + 1); }
    }
}
pub open spec fn comp_ver_r(s: Seq<u8>, c: int) -> Seq<u8> {
    let avail = s.len() - c;
    if 0 <= avail < 8 { lit8().subrange(avail, 8) + r_sp_code() } else { Seq::empty() }
}
pub proof fn lemma_ver_r_completable(s: Seq<u8>, c: int)
    requires 0 <= c <= s.len(), spec_version(s, c) is Partial,
    ensures spec_version(s + comp_ver_r(s, c), c) == SRes::Complete(1u8, c + 8), tail_is(s + comp_ver_r(s, c), c + 8, r_sp_code()),
{
    let t = comp_ver_r(s, c);
    let u = s + t;
    let avail = s.len() - c;
    lemma_append_index(s, t);
    let m = if avail < 7 { avail } else { 7 };
    assert(agrees_lit(s, c, m));
    assert forall|k: int| 0 <= k < 8 implies #[trigger] u[c + k] == lit8()[k] by {
        if k < avail { assert(u[c + k] == s[c + k]); if k < 7 { assert(s[c + k] == http1_lit()[k]); } }
        else { assert(u[c + k] == t[k - avail]); assert(t[k - avail] == lit8().subrange(avail, 8)[k - avail]); }
    }
    assert(agrees_lit(u, c, 7)) by { assert forall|k: int| 0 <= k < 7 implies #[trigger] u[c + k] == http1_lit()[k] by { assert(u[c + k] == lit8()[k]); } }
    assert(u[c + 7] == lit8()[7]);
    assert(u.subrange(c + 8, u.len() as int) =~= r_sp_code());
}
pub open spec fn comp_code(s: Seq<u8>, c: int) -> Seq<u8> {
    let k = s.len() - c;
    if k <= 0 { seq![0x30u8, 0x30, 0x30] + crlf_crlf() } else if k == 1 { seq![0x30u8, 0x30] + crlf_crlf() } else { seq![0x30u8] + crlf_crlf() }
}
pub proof fn lemma_code_completable(s: Seq<u8>, c: int)
    requires 0 <= c <= s.len(), spec_code(s, c) is Partial,
    ensures spec_code(s + comp_code(s, c), c) is Complete, spec_code(s + comp_code(s, c), c)->Complete_1 == c + 3, tail_is(s + comp_code(s, c), c + 3, crlf_crlf()),
{
    let t = comp_code(s, c);
    let u = s + t;
    let k = s.len() - c;
    lemma_append_index(s, t);
    if k == 0 { assert(u[c] == t[0] && u[c + 1] == t[1] && u[c + 2] == t[2]); }
    else if k == 1 { assert(u[c] == s[c] && u[c + 1] == t[0] && u[c + 2] == t[1]); }
    else { assert(k == 2); assert(u[c] == s[c] && u[c + 1] == s[c + 1] && u[c + 2] == t[0]); }
    assert(u.subrange(c + 3, u.len() as int) =~= crlf_crlf());
}
pub open spec fn comp_after_code(s: Seq<u8>, i: int, multi: bool) -> Seq<u8> {
    if i >= s.len() { crlf_crlf() }
    else if s[i] == 0x20 {
        let c = if multi { first_not(cls_sp(), s, i + 1) } else { i + 1 };
        if c >= s.len() { crlf_crlf() }
        else if first_not(cls_reason(), s, c) >= s.len() { crlf_crlf() } else { lf_crlf() }
    }
    else { lf_crlf() }
}
pub proof fn lemma_after_code_completable(s: Seq<u8>, i: int, multi: bool)
    requires 0 <= i <= s.len(), spec_after_code(s, i, multi) is Partial,
    ensures spec_after_code(s + comp_after_code(s, i, multi), i, multi) matches SRes::Complete(_, k) && tail_is(s + comp_after_code(s, i, multi), k, crlf()),
{
    let t = comp_after_code(s, i, multi);
    let u = s + t;
    lemma_append_index(s, t);
    if i >= s.len() {
        assert(u[i] == t[0] && u[i + 1] == t[1]);
        assert(u.subrange(i + 2, u.len() as int) =~= crlf());
    } else {
        assert(u[i] == s[i]);
        if s[i] == 0x20 {
            if multi { lemma_first_not_props(cls_sp(), s, i + 1); }
            let c = if multi { first_not(cls_sp(), s, i + 1) } else { i + 1 };
            if c >= s.len() {
                // nothing (but SP) after the SP: an empty reason, then the line end
                if multi { lemma_run_then_stop(cls_sp(), s, t, i + 1); }
                let l = s.len() as int;
                assert(u[l] == t[0] && u[l + 1] == t[1]);
                lemma_first_not_char(cls_reason(), u, l, l);
                assert(u.subrange(l + 2, u.len() as int) =~= crlf());
                assert(!has_obs(u, l, l));
            } else {
                if multi { lemma_first_not_append(cls_sp(), s, t, i + 1); }
                lemma_first_not_props(cls_reason(), s, c);
                let j = first_not(cls_reason(), s, c);
                if j >= s.len() {
                    lemma_run_then_stop(cls_reason(), s, t, c);
                    let l = s.len() as int;
                    assert(u[l] == t[0] && u[l + 1] == t[1]);
                    assert(u.subrange(l + 2, u.len() as int) =~= crlf());
                } else {
                    lemma_first_not_append(cls_reason(), s, t, c);
                    assert(u[j] == s[j]);
                    assert(u[j + 1] == t[0]);
                    assert(u.subrange(j + 2, u.len() as int) =~= crlf());
                }
            }
        } else {
            assert(u[i + 1] == t[0]);
            assert(u.subrange(i + 2, u.len() as int) =~= crlf());
        }
    }
}

pub open spec fn comp_response(s: Seq<u8>, multi: bool, san: bool, fold: bool, sbf: bool, ign: bool, cap: int) -> Seq<u8> {
    match spec_empty_lines(s, 0) {
        SRes::Complete(_, c0) => match spec_version(s, c0) {
            SRes::Complete(v, c1) => match one_sp(s, c1, Error::Version) {
                SRes::Complete(_, c2) => match opt_spaces(multi, s, c2) {
                    SRes::Complete(_, c3) => match spec_code(s, c3) {
                        SRes::Complete(code, c4) => match spec_after_code(s, c4, multi) {
                            SRes::Complete(rs, c5) => comp_hdrs(s, c5, Seq::empty(), resp_hcfg(san, fold, sbf, ign), cap),
                            _ => comp_after_code(s, c4, multi),
                        },
                        _ => comp_code(s, c3),
                    },
                    _ => r_code(),
                },
                _ => r_sp_code(),
            },
            _ => comp_ver_r(s, c0),
        },
        _ => comp_el_r(s, 0),
    }
}
// the only exception for responses: header capacity already full and a further header line open
pub open spec fn resp_exception(s: Seq<u8>, multi: bool, san: bool, fold: bool, sbf: bool, ign: bool, cap: int) -> bool {
    match spec_empty_lines(s, 0) {
        SRes::Complete(_, c0) => match spec_version(s, c0) {
            SRes::Complete(v, c1) => match one_sp(s, c1, Error::Version) {
                SRes::Complete(_, c2) => match opt_spaces(multi, s, c2) {
                    SRes::Complete(_, c3) => match spec_code(s, c3) {
                        SRes::Complete(code, c4) => match spec_after_code(s, c4, multi) {
                            SRes::Complete(rs, c5) => full_and_open(s, c5, Seq::empty(), resp_hcfg(san, fold, sbf, ign), cap),
                            _ => false,
                        },
                        _ => false,
                    },
                    _ => false,
                },
                _ => false,
            },
            _ => false,
        },
        _ => false,
    }
}
pub proof fn lemma_respc_el(s: Seq<u8>, multi: bool, san: bool, fold: bool, sbf: bool, ign: bool, cap: int)
    requires spec_empty_lines(s, 0) is Partial,
    ensures spec_response(s + comp_el_r(s, 0), multi, san, fold, sbf, ign, cap).res is Complete
{
    let u = s + comp_el_r(s, 0);
    let cfg = resp_hcfg(san, fold, sbf, ign);
    lemma_el_r_completable(s, 0);
    let k = spec_empty_lines(u, 0)->Complete_1;
    lemma_rtail_all(u, k);
    lemma_rtail_sp_code(u, k + 8);
    lemma_rtail_chain(u, k + 9, multi, cfg, cap);
}
pub proof fn lemma_respc_ver(s: Seq<u8>, multi: bool, san: bool, fold: bool, sbf: bool, ign: bool, cap: int, c0: int)
    requires at(spec_empty_lines(s, 0), c0), spec_version(s, c0) is Partial,
    ensures spec_response(s + comp_ver_r(s, c0), multi, san, fold, sbf, ign, cap).res is Complete
{
    let t = comp_ver_r(s, c0);
    let u = s + t;
    let cfg = resp_hcfg(san, fold, sbf, ign);
    lemma_empty_lines_bounds(s, 0);
    lemma_empty_lines_stable(s, t, 0);
    lemma_ver_r_completable(s, c0);
    lemma_rtail_sp_code(u, c0 + 8);
    lemma_rtail_chain(u, c0 + 9, multi, cfg, cap);
}
pub proof fn lemma_respc_sp(s: Seq<u8>, multi: bool, san: bool, fold: bool, sbf: bool, ign: bool, cap: int, c0: int, v: u8, c1: int)
    requires at(spec_empty_lines(s, 0), c0), spec_version(s, c0) == SRes::Complete(v, c1), one_sp(s, c1, Error::Version) is Partial,
    ensures spec_response(s + r_sp_code(), multi, san, fold, sbf, ign, cap).res is Complete
{
    let t = r_sp_code();
    let u = s + t;
    let cfg = resp_hcfg(san, fold, sbf, ign);
    lemma_append_index(s, t);
    lemma_empty_lines_bounds(s, 0);
    lemma_empty_lines_stable(s, t, 0);
    lemma_version_stable(s, t, c0);
    assert(c1 >= s.len());
    assert(u.subrange(s.len() as int, u.len() as int) =~= r_sp_code());
    lemma_rtail_sp_code(u, c1);
    lemma_rtail_chain(u, c1 + 1, multi, cfg, cap);
}
pub proof fn lemma_respc_sp2(s: Seq<u8>, san: bool, fold: bool, sbf: bool, ign: bool, cap: int, c0: int, v: u8, c1: int, c2: int)
    requires at(spec_empty_lines(s, 0), c0), spec_version(s, c0) == SRes::Complete(v, c1), at(one_sp(s, c1, Error::Version), c2), spec_spaces(s, c2) is Partial,
    ensures spec_response(s + r_code(), true, san, fold, sbf, ign, cap).res is Complete
{
    let t = r_code();
    let u = s + t;
    let cfg = resp_hcfg(san, fold, sbf, ign);
    lemma_append_index(s, t);
    lemma_empty_lines_bounds(s, 0);
    lemma_empty_lines_stable(s, t, 0);
    lemma_version_stable(s, t, c0);
    assert(u[c1] == s[c1]);
    lemma_first_not_props(cls_sp(), s, c2);
    assert(t[0] == 0x32);
    lemma_run_then_stop(cls_sp(), s, t, c2);
    assert(u.subrange(s.len() as int, u.len() as int) =~= r_code());
    lemma_rtail_chain(u, s.len() as int, true, cfg, cap);
    assert(spec_spaces(u, c2) == SRes::Complete((), s.len() as int));
}
pub proof fn lemma_respc_code(s: Seq<u8>, multi: bool, san: bool, fold: bool, sbf: bool, ign: bool, cap: int, c0: int, v: u8, c1: int, c2: int, c3: int)
    requires at(spec_empty_lines(s, 0), c0), spec_version(s, c0) == SRes::Complete(v, c1), at(one_sp(s, c1, Error::Version), c2), at(opt_spaces(multi, s, c2), c3),
        spec_code(s, c3) is Partial,
    ensures spec_response(s + comp_code(s, c3), multi, san, fold, sbf, ign, cap).res is Complete
{
    let t = comp_code(s, c3);
    let u = s + t;
    let cfg = resp_hcfg(san, fold, sbf, ign);
    lemma_append_index(s, t);
    lemma_empty_lines_bounds(s, 0);
    lemma_empty_lines_stable(s, t, 0);
    lemma_version_stable(s, t, c0);
    assert(u[c1] == s[c1]);
    if multi { lemma_first_not_props(cls_sp(), s, c2); lemma_spaces_stable(s, t, c2); }
    lemma_code_completable(s, c3);
    lemma_rtail_after_code(u, c3 + 3, multi, cfg, cap);
}
pub proof fn lemma_respc_after(s: Seq<u8>, multi: bool, san: bool, fold: bool, sbf: bool, ign: bool, cap: int, c0: int, v: u8, c1: int, c2: int, c3: int, code: u16, c4: int)
    requires at(spec_empty_lines(s, 0), c0), spec_version(s, c0) == SRes::Complete(v, c1), at(one_sp(s, c1, Error::Version), c2), at(opt_spaces(multi, s, c2), c3),
        spec_code(s, c3) == SRes::Complete(code, c4), spec_after_code(s, c4, multi) is Partial,
    ensures spec_response(s + comp_after_code(s, c4, multi), multi, san, fold, sbf, ign, cap).res is Complete
{
    let t = comp_after_code(s, c4, multi);
    let u = s + t;
    let cfg = resp_hcfg(san, fold, sbf, ign);
    lemma_append_index(s, t);
    lemma_empty_lines_bounds(s, 0);
    lemma_empty_lines_stable(s, t, 0);
    lemma_version_stable(s, t, c0);
    assert(u[c1] == s[c1]);
    if multi { lemma_first_not_props(cls_sp(), s, c2); lemma_spaces_stable(s, t, c2); }
    lemma_code_stable(s, t, c3);
    lemma_after_code_completable(s, c4, multi);
    let k = spec_after_code(u, c4, multi)->Complete_1;
    lemma_tail_hdrs(u, k, cfg, cap);
}
pub proof fn lemma_respc_hdrs(s: Seq<u8>, multi: bool, san: bool, fold: bool, sbf: bool, ign: bool, cap: int, c0: int, v: u8, c1: int, c2: int, c3: int, code: u16, c4: int, rs: (int, int, bool), c5: int)
    requires at(spec_empty_lines(s, 0), c0), spec_version(s, c0) == SRes::Complete(v, c1), at(one_sp(s, c1, Error::Version), c2), at(opt_spaces(multi, s, c2), c3),
        spec_code(s, c3) == SRes::Complete(code, c4), spec_after_code(s, c4, multi) == SRes::Complete(rs, c5),
        spec_hdrs(s, c5, Seq::empty(), resp_hcfg(san, fold, sbf, ign), cap) is Partial, !full_and_open(s, c5, Seq::empty(), resp_hcfg(san, fold, sbf, ign), cap),
    ensures spec_response(s + comp_hdrs(s, c5, Seq::empty(), resp_hcfg(san, fold, sbf, ign), cap), multi, san, fold, sbf, ign, cap).res is Complete
{
    let cfg = resp_hcfg(san, fold, sbf, ign);
    let t = comp_hdrs(s, c5, Seq::empty(), cfg, cap);
    let u = s + t;
    lemma_append_index(s, t);
    lemma_empty_lines_bounds(s, 0);
    lemma_empty_lines_stable(s, t, 0);
    lemma_version_stable(s, t, c0);
    assert(u[c1] == s[c1]);
    if multi { lemma_first_not_props(cls_sp(), s, c2); lemma_spaces_stable(s, t, c2); }
    lemma_code_stable(s, t, c3);
    lemma_after_code_bounds(s, c4, multi);
    lemma_after_code_stable(s, t, c4, multi);
    lemma_hdrs_completable(s, c5, Seq::empty(), cfg, cap);
}
// @tags C11
pub proof fn lemma_response_completable(s: Seq<u8>, multi: bool, san: bool, fold: bool, sbf: bool, ign: bool, cap: int)
    requires spec_response(s, multi, san, fold, sbf, ign, cap).res is Partial, !resp_exception(s, multi, san, fold, sbf, ign, cap),
    ensures spec_response(s + comp_response(s, multi, san, fold, sbf, ign, cap), multi, san, fold, sbf, ign, cap).res is Complete
{
    match spec_empty_lines(s, 0) {
        SRes::Complete(_, c0) => match spec_version(s, c0) {
            SRes::Complete(v, c1) => match one_sp(s, c1, Error::Version) {
                SRes::Complete(_, c2) => match opt_spaces(multi, s, c2) {
                    SRes::Complete(_, c3) => match spec_code(s, c3) {
                        SRes::Complete(code, c4) => match spec_after_code(s, c4, multi) {
                            SRes::Complete(rs, c5) => { lemma_respc_hdrs(s, multi, san, fold, sbf, ign, cap, c0, v, c1, c2, c3, code, c4, rs, c5); }
                            _ => { lemma_respc_after(s, multi, san, fold, sbf, ign, cap, c0, v, c1, c2, c3, code, c4); }
                        },
                        _ => { lemma_respc_code(s, multi, san, fold, sbf, ign, cap, c0, v, c1, c2, c3); }
                    },
                    _ => { lemma_respc_sp2(s, san, fold, sbf, ign, cap, c0, v, c1, c2); }
                },
                _ => { lemma_respc_sp(s, multi, san, fold, sbf, ign, cap, c0, v, c1); }
            },
            _ => { lemma_respc_ver(s, multi, san, fold, sbf, ign, cap, c0); }
        },
        _ => { lemma_respc_el(s, multi, san, fold, sbf, ign, cap); }
    }
}

// ------------------------------------------------------------------------------------------------ C16: the header block is position-parametric
// parse_headers(h) and the header part of a message whose start line `pre` precedes h: same result, offsets shifted by |pre|
pub open spec fn sh_h(h: SHdr, d: int) -> SHdr { SHdr { name_lo: h.name_lo + d, name_hi: h.name_hi + d, val_lo: h.val_lo + d, val_hi: h.val_hi + d } }
pub open spec fn sh_line(l: LineRes, d: int) -> LineRes {
    match l {
        LineRes::End(n) => LineRes::End(n + d),
        LineRes::Header(h, n) => LineRes::Header(sh_h(h, d), n + d),
        LineRes::Skip(n) => LineRes::Skip(n + d),
        LineRes::Partial => LineRes::Partial,
        LineRes::Err(e) => LineRes::Err(e),
    }
}
pub open spec fn sh_acc(acc: Seq<SHdr>, d: int) -> Seq<SHdr> { Seq::new(acc.len(), |i: int| sh_h(acc[i], d)) }
pub open spec fn sh_res(r: SRes<Seq<SHdr>>, d: int) -> SRes<Seq<SHdr>> {
    match r {
        SRes::Complete(hs, n) => SRes::Complete(sh_acc(hs, d), n + d),
        SRes::Partial => SRes::Partial,
        SRes::Err(e) => SRes::Err(e),
    }
}
pub proof fn lemma_shift_index(pre: Seq<u8>, h: Seq<u8>)
    ensures forall|k: int| 0 <= k < h.len() ==> #[trigger] (pre + h)[k + pre.len()] == h[k], (pre + h).len() == pre.len() + h.len(),
{}
pub proof fn lemma_first_not_shift(cls: spec_fn(u8) -> bool, pre: Seq<u8>, h: Seq<u8>, i: int)
    requires 0 <= i <= h.len(),
    ensures first_not(cls, pre + h, i + pre.len()) == first_not(cls, h, i) + pre.len()
    decreases h.len() - i
{
    lemma_shift_index(pre, h);
    if i < h.len() {
        assert((pre + h)[i + pre.len()] == h[i]);
        if cls(h[i]) { lemma_first_not_shift(cls, pre, h, i + 1); }
    }
}
pub proof fn lemma_skip_shift(pre: Seq<u8>, h: Seq<u8>, q: int, e: Error)
    requires 0 <= q <= h.len(),
    ensures spec_skip(pre + h, q + pre.len(), e) == sh_line(spec_skip(h, q, e), pre.len() as int)
    decreases h.len() - q
{
    lemma_shift_index(pre, h);
    let d = pre.len() as int;
    if q < h.len() {
        assert((pre + h)[q + d] == h[q]);
        if h[q] == 0x0d { if q + 1 < h.len() { assert((pre + h)[q + 1 + d] == h[q + 1]); } }
        else if h[q] != 0x0a && h[q] != 0 { lemma_skip_shift(pre, h, q + 1, e); }
    }
}
pub proof fn lemma_trim_end_shift(pre: Seq<u8>, h: Seq<u8>, lo: int, hi: int)
    requires 0 <= lo, hi <= h.len(),
    ensures trim_end(pre + h, lo + pre.len(), hi + pre.len()) == trim_end(h, lo, hi) + pre.len()
    decreases hi - lo
{
    lemma_shift_index(pre, h);
    if hi > lo {
        assert((pre + h)[hi - 1 + pre.len()] == h[hi - 1]);
        if is_ows(h[hi - 1]) { lemma_trim_end_shift(pre, h, lo, hi - 1); }
    }
}
pub proof fn lemma_vlines_shift(pre: Seq<u8>, h: Seq<u8>, nlo: int, nhi: int, v0: int, from: int, cfg: HCfg)
    requires 0 <= v0 <= from <= h.len(),
    ensures spec_vlines(pre + h, nlo + pre.len(), nhi + pre.len(), v0 + pre.len(), from + pre.len(), cfg)
        == sh_line(spec_vlines(h, nlo, nhi, v0, from, cfg), pre.len() as int)
    decreases h.len() - from
{
    let d = pre.len() as int;
    let u = pre + h;
    lemma_shift_index(pre, h);
    lemma_first_not_shift(cls_hval(), pre, h, from);
    lemma_first_not_props(cls_hval(), h, from);
    let e = first_not(cls_hval(), h, from);
    if e < h.len() {
        assert(u[e + d] == h[e]);
        let n = if h[e] == 0x0a { e + 1 } else { e + 2 };
        if h[e] == 0x0d && e + 1 < h.len() { assert(u[e + 1 + d] == h[e + 1]); }
        if h[e] != 0x0d && h[e] != 0x0a { lemma_skip_shift(pre, h, e, Error::HeaderValue); }
        else if !(h[e] == 0x0d && (e + 1 >= h.len() || h[e + 1] != 0x0a)) {
            if n < h.len() { assert(u[n + d] == h[n]); }
            if cfg.fold && n < h.len() && is_spht(h[n]) { lemma_vlines_shift(pre, h, nlo, nhi, v0, n, cfg); }
            else { lemma_trim_end_shift(pre, h, v0, e); }
        }
    }
}
pub proof fn lemma_ws_shift(pre: Seq<u8>, h: Seq<u8>, nlo: int, nhi: int, c: int, cfg: HCfg)
    requires 0 <= c <= h.len(),
    ensures spec_ws(pre + h, nlo + pre.len(), nhi + pre.len(), c + pre.len(), cfg) == sh_line(spec_ws(h, nlo, nhi, c, cfg), pre.len() as int)
    decreases h.len() - c
{
    let d = pre.len() as int;
    let u = pre + h;
    lemma_shift_index(pre, h);
    if c < h.len() {
        assert(u[c + d] == h[c]);
        if is_spht(h[c]) { lemma_ws_shift(pre, h, nlo, nhi, c + 1, cfg); }
        else if is_hval(h[c]) { lemma_vlines_shift(pre, h, nlo, nhi, c, c, cfg); }
        else {
            let n = if h[c] == 0x0a { c + 1 } else { c + 2 };
            if h[c] == 0x0d && c + 1 < h.len() { assert(u[c + 1 + d] == h[c + 1]); }
            if h[c] != 0x0d && h[c] != 0x0a { lemma_skip_shift(pre, h, c, Error::HeaderValue); }
            else if !(h[c] == 0x0d && (c + 1 >= h.len() || h[c + 1] != 0x0a)) {
                if n < h.len() { assert(u[n + d] == h[n]); }
                if cfg.fold && n < h.len() && is_spht(h[n]) { lemma_ws_shift(pre, h, nlo, nhi, n, cfg); }
            }
        }
    }
}
pub proof fn lemma_name_ws_shift(pre: Seq<u8>, h: Seq<u8>, nlo: int, nhi: int, q: int, cfg: HCfg)
    requires 0 <= q <= h.len(),
    ensures spec_name_ws(pre + h, nlo + pre.len(), nhi + pre.len(), q + pre.len(), cfg) == sh_line(spec_name_ws(h, nlo, nhi, q, cfg), pre.len() as int)
    decreases h.len() - q
{
    let d = pre.len() as int;
    let u = pre + h;
    lemma_shift_index(pre, h);
    if q < h.len() {
        assert(u[q + d] == h[q]);
        if !is_spht(h[q]) { if cfg.ignore { lemma_skip_shift(pre, h, q, Error::HeaderName); } }
        else if q + 1 < h.len() {
            assert(u[q + 1 + d] == h[q + 1]);
            if h[q + 1] == 0x3a { lemma_ws_shift(pre, h, nlo, nhi, q + 2, cfg); } else { lemma_name_ws_shift(pre, h, nlo, nhi, q + 1, cfg); }
        }
    }
}
pub proof fn lemma_line_shift(pre: Seq<u8>, h: Seq<u8>, p: int, first: bool, cfg: HCfg)
    requires 0 <= p <= h.len(),
    ensures spec_line(pre + h, p + pre.len(), first, cfg) == sh_line(spec_line(h, p, first, cfg), pre.len() as int)
{
    let d = pre.len() as int;
    let u = pre + h;
    lemma_shift_index(pre, h);
    if p < h.len() {
        assert(u[p + d] == h[p]);
        if h[p] == 0x0d { if p + 1 < h.len() { assert(u[p + 1 + d] == h[p + 1]); } }
        else if h[p] == 0x0a { }
        else if !is_tchar(h[p]) {
            if !(cfg.sp_before_first && first && is_spht(h[p])) && cfg.ignore { lemma_skip_shift(pre, h, p, Error::HeaderName); }
        } else {
            lemma_first_not_shift(cls_tchar(), pre, h, p);
            lemma_first_not_props(cls_tchar(), h, p);
            let e = first_not(cls_tchar(), h, p);
            if e < h.len() {
                assert(u[e + d] == h[e]);
                if h[e] == 0x3a { lemma_ws_shift(pre, h, p, e, e + 1, cfg); }
                else if cfg.sp_after_name { lemma_name_ws_shift(pre, h, p, e, e, cfg); }
                else if cfg.ignore { lemma_skip_shift(pre, h, e, Error::HeaderName); }
            }
        }
    }
}
// @tags C16
pub proof fn lemma_hdrs_shift(pre: Seq<u8>, h: Seq<u8>, p: int, acc: Seq<SHdr>, cfg: HCfg, cap: int)
    requires 0 <= p <= h.len(),
    ensures spec_hdrs(pre + h, p + pre.len(), sh_acc(acc, pre.len() as int), cfg, cap) == sh_res(spec_hdrs(h, p, acc, cfg, cap), pre.len() as int)
    decreases h.len() - p
{
    let d = pre.len() as int;
    lemma_line_progress(h, p, acc.len() == 0, cfg);
    lemma_line_shift(pre, h, p, acc.len() == 0, cfg);
    lemma_line_progress(pre + h, p + d, acc.len() == 0, cfg);
    assert(sh_acc(acc, d).len() == acc.len());
    match spec_line(h, p, acc.len() == 0, cfg) {
        LineRes::Header(x, n) => {
            if acc.len() < cap {
                assert(sh_acc(acc, d).push(sh_h(x, d)) =~= sh_acc(acc.push(x), d));
                lemma_hdrs_shift(pre, h, n, acc.push(x), cfg, cap);
            }
        }
        LineRes::Skip(n) => { lemma_hdrs_shift(pre, h, n, acc, cfg, cap); }
        _ => {}
    }
}
// the statement of C16's second sentence: the header block of a message whose start line is `pre` = parse_headers(h) shifted
// @tags C16
pub proof fn lemma_parse_headers_agrees(pre: Seq<u8>, h: Seq<u8>, cfg: HCfg, cap: int)
    ensures spec_hdrs(pre + h, pre.len() as int, Seq::empty(), cfg, cap) == sh_res(spec_hdrs(h, 0, Seq::empty(), cfg, cap), pre.len() as int)
{
    lemma_hdrs_shift(pre, h, 0, Seq::empty(), cfg, cap);
    assert(sh_acc(Seq::<SHdr>::empty(), pre.len() as int) =~= Seq::<SHdr>::empty());
}

// ------------------------------------------------------------------------------------------------ C20: the counting step
// What the contracts establish per loop SITE: every iteration starts at a cursor value strictly larger than the previous
// iteration of that site (the loop's own `decreases len - cursor`, and `cursor(final) >= cursor(old)` in the contract of
// everything executed in between), and all of them lie in [cur0, len].  The counting step of the linear-work argument is
// then this lemma: such a site runs at most len - cur0 + 1 times in one call, so the call executes at most
// (number of loop sites) * (len + 1) iterations, each of bounded cost apart from the two slice scans whose ranges are disjoint
// sub-ranges of the buffer (the value trim, the UTF-8 check of the target).  The link from the executions of the real code
// to `cursors` is the set of discharged `decreases` / frame obligations; it is an argument, not a Verus term (DESIGN 5, C20).
pub open spec fn strictly_increasing(s: Seq<int>) -> bool { forall|i: int, j: int| 0 <= i < j < s.len() ==> s[i] < s[j] }
// @tags C20
pub proof fn lemma_site_iterations_bounded(cursors: Seq<int>, cur0: int, len: int)
    requires strictly_increasing(cursors), forall|i: int| 0 <= i < cursors.len() ==> cur0 <= #[trigger] cursors[i] <= len,
    ensures cursors.len() <= len - cur0 + 1 || cursors.len() == 0,
    decreases cursors.len()
{
    if cursors.len() > 0 {
        let k = cursors.len() - 1;
        let rest = cursors.subrange(0, k);
        assert forall|i: int, j: int| 0 <= i < j < rest.len() implies rest[i] < rest[j] by { assert(rest[i] == cursors[i] && rest[j] == cursors[j]); }
        assert forall|i: int| 0 <= i < rest.len() implies cur0 <= #[trigger] rest[i] <= cursors[k] - 1 by { assert(rest[i] == cursors[i]); assert(cursors[i] < cursors[k]); }
        lemma_site_iterations_bounded(rest, cur0, cursors[k] - 1);
    }
}
