// =====================================================================================================
// Oracle for the header block, written from the sentences of C08 / C14 / C03 / C10 / C17 (not from the code).
//
//   line   = name ":" OWS value OWS EOL          name = 1*tchar, OWS = *(SP / HTAB), EOL = CRLF / LF
//   block  = *line EOL
// with the four leniency options of C14.  Positions are offsets into the whole buffer `s`.
// The definitions recurse byte by byte / line by line so that every inductive argument is a one-step unfolding.
// =====================================================================================================
pub struct HCfg {
    pub sp_after_name: bool,     // allow_spaces_after_header_name(_in_responses)
    pub fold: bool,              // allow_obsolete_multiline_headers(_in_responses)
    pub sp_before_first: bool,   // allow_space_before_first_header_name
    pub ignore: bool,            // ignore_invalid_headers(_in_requests/_in_responses)
}
pub open spec fn hcfg_default() -> HCfg { HCfg { sp_after_name: false, fold: false, sp_before_first: false, ignore: false } }

// a reported header: name = s[name_lo..name_hi), value = s[val_lo..val_hi)
pub struct SHdr { pub name_lo: int, pub name_hi: int, pub val_lo: int, pub val_hi: int }

pub enum LineRes {
    End(int),            // the empty line: the head ends at this offset
    Header(SHdr, int),   // one header; the next line starts at the offset
    Skip(int),           // nothing reported (dropped invalid line / whitespace before the first header); resume at the offset
    Partial,
    Err(Error),
}

// ---- C14 "ignore_invalid_headers drops an offending header line through its line end and resumes at the next line.
//           Even when ignoring invalid headers, a NUL byte or a CR not followed by LF anywhere in the dropped line still fails"
// q = offset of the offending byte (it is examined too), e = the kind of the element it offends (C10)
pub open spec fn spec_skip(s: Seq<u8>, q: int, e: Error) -> LineRes
    decreases s.len() - q
{
    if q < 0 || q >= s.len() { LineRes::Partial }
    else if s[q] == 0x0d {
        if q + 1 >= s.len() { LineRes::Partial } else if s[q + 1] == 0x0a { LineRes::Skip(q + 2) } else { LineRes::Err(e) }
    }
    else if s[q] == 0x0a { LineRes::Skip(q + 1) }
    else if s[q] == 0 { LineRes::Err(e) }
    else { spec_skip(s, q + 1, e) }
}
// an offending byte at q: an error, unless offending lines are dropped
pub open spec fn spec_invalid(s: Seq<u8>, q: int, e: Error, cfg: HCfg) -> LineRes {
    if !cfg.ignore { LineRes::Err(e) } else { spec_skip(s, q, e) }
}

// ---- trailing OWS of a value: the end of s[lo..hi) after removing trailing SP / HTAB (and, for folded values, CR / LF)
pub open spec fn is_ows(b: u8) -> bool { b == 0x20 || b == 9 || b == 0x0d || b == 0x0a }
pub open spec fn trim_end(s: Seq<u8>, lo: int, hi: int) -> int
    decreases hi - lo
{
    if hi <= lo { lo } else if 0 <= hi - 1 < s.len() && is_ows(s[hi - 1]) { trim_end(s, lo, hi - 1) } else { hi }
}

// ---- value lines: the value started at v0; scan from `from` to the line end; with folding, a line end followed by SP/HTAB
//      continues the value ("interior line breaks kept")
pub open spec fn spec_vlines(s: Seq<u8>, nlo: int, nhi: int, v0: int, from: int, cfg: HCfg) -> LineRes
    decreases s.len() - from
{
    let e = first_not(cls_hval(), s, from);
    if from < 0 || e < from || e >= s.len() { LineRes::Partial }
    else {
        let n = if s[e] == 0x0a { e + 1 } else { e + 2 };      // offset after the line end, if this is one
        if s[e] == 0x0d && e + 1 >= s.len() { LineRes::Partial }
        else if s[e] == 0x0d && s[e + 1] != 0x0a { LineRes::Err(Error::HeaderValue) }
        else if s[e] != 0x0d && s[e] != 0x0a { spec_invalid(s, e, Error::HeaderValue, cfg) }
        else if cfg.fold && n >= s.len() { LineRes::Partial }   // the next byte decides whether the value continues
        else if cfg.fold && is_spht(s[n]) { spec_vlines(s, nlo, nhi, v0, n, cfg) }
        else { LineRes::Header(SHdr { name_lo: nlo, name_hi: nhi, val_lo: v0, val_hi: trim_end(s, v0, e) }, n) }
    }
}

// ---- after the colon: skip OWS (with folding: also line ends that are followed by SP/HTAB), then the value
pub open spec fn spec_ws(s: Seq<u8>, nlo: int, nhi: int, c: int, cfg: HCfg) -> LineRes
    decreases s.len() - c
{
    if c < 0 || c >= s.len() { LineRes::Partial }
    else if is_spht(s[c]) { spec_ws(s, nlo, nhi, c + 1, cfg) }
    else if is_hval(s[c]) { spec_vlines(s, nlo, nhi, c, c, cfg) }
    else {
        let n = if s[c] == 0x0a { c + 1 } else { c + 2 };
        if s[c] == 0x0d && c + 1 >= s.len() { LineRes::Partial }
        else if s[c] == 0x0d && s[c + 1] != 0x0a { LineRes::Err(Error::HeaderValue) }
        else if s[c] != 0x0d && s[c] != 0x0a { spec_invalid(s, c, Error::HeaderValue, cfg) }
        else if cfg.fold && n >= s.len() { LineRes::Partial }
        else if cfg.fold && is_spht(s[n]) { spec_ws(s, nlo, nhi, n, cfg) }
        else { LineRes::Header(SHdr { name_lo: nlo, name_hi: nhi, val_lo: c, val_hi: c }, n) }   // empty value
    }
}

// ---- C14 "allow_spaces_after_header_name admits SP/HTAB between name and colon": q = offset of the byte after the name
pub open spec fn spec_name_ws(s: Seq<u8>, nlo: int, nhi: int, q: int, cfg: HCfg) -> LineRes
    decreases s.len() - q
{
    if q < 0 || q >= s.len() { LineRes::Partial }
    else if !is_spht(s[q]) { spec_invalid(s, q, Error::HeaderName, cfg) }
    else if q + 1 >= s.len() { LineRes::Partial }
    else if s[q + 1] == 0x3a { spec_ws(s, nlo, nhi, q + 2, cfg) }
    else { spec_name_ws(s, nlo, nhi, q + 1, cfg) }
}

// ---- one line starting at p; `first` <=> no header has been stored yet
pub open spec fn spec_line(s: Seq<u8>, p: int, first: bool, cfg: HCfg) -> LineRes {
    if p < 0 || p >= s.len() { LineRes::Partial }
    else if s[p] == 0x0d {
        if p + 1 >= s.len() { LineRes::Partial } else if s[p + 1] == 0x0a { LineRes::End(p + 2) } else { LineRes::Err(Error::NewLine) }
    }
    else if s[p] == 0x0a { LineRes::End(p + 1) }
    else if !is_tchar(s[p]) {
        // C14 "allow_space_before_first_header_name ignores SP/HTAB before the first header name"
        if cfg.sp_before_first && first && is_spht(s[p]) { LineRes::Skip(p + 1) }
        else { spec_invalid(s, p, Error::HeaderName, cfg) }
    }
    else {
        let e = first_not(cls_tchar(), s, p);           // name = s[p..e), at least one tchar
        if e >= s.len() { LineRes::Partial }
        else if s[e] == 0x3a { spec_ws(s, p, e, e + 1, cfg) }
        else if cfg.sp_after_name { spec_name_ws(s, p, e, e, cfg) }
        else { spec_invalid(s, e, Error::HeaderName, cfg) }
    }
}

// ---- progress: every line result that continues does so strictly after p
pub proof fn lemma_skip_progress(s: Seq<u8>, q: int, e: Error)
    requires 0 <= q,
    ensures spec_skip(s, q, e) matches LineRes::Skip(n) ==> q < n <= s.len(),
            !(spec_skip(s, q, e) is Header), !(spec_skip(s, q, e) is End),
    decreases s.len() - q
{
    if q < s.len() && s[q] != 0x0d && s[q] != 0x0a && s[q] != 0 { lemma_skip_progress(s, q + 1, e); }
}
pub proof fn lemma_vlines_progress(s: Seq<u8>, nlo: int, nhi: int, v0: int, from: int, cfg: HCfg)
    requires 0 <= from,
    ensures spec_vlines(s, nlo, nhi, v0, from, cfg) matches LineRes::Skip(n) ==> from < n <= s.len(),
            spec_vlines(s, nlo, nhi, v0, from, cfg) matches LineRes::Header(h, n) ==> from < n <= s.len()
                && h.name_lo == nlo && h.name_hi == nhi && h.val_lo == v0 && v0 <= h.val_hi,
            !(spec_vlines(s, nlo, nhi, v0, from, cfg) is End),
    decreases s.len() - from
{
    lemma_first_not_props(cls_hval(), s, if from <= s.len() { from } else { s.len() as int });
    let e = first_not(cls_hval(), s, from);
    if from <= s.len() && from <= e < s.len() {
        let n = if s[e] == 0x0a { e + 1 } else { e + 2 };
        if s[e] != 0x0d && s[e] != 0x0a { lemma_skip_progress(s, e, Error::HeaderValue); }
        else if cfg.fold && n < s.len() && is_spht(s[n]) { lemma_vlines_progress(s, nlo, nhi, v0, n, cfg); }
        lemma_trim_end_bounds(s, v0, e);
    }
}
pub proof fn lemma_trim_end_bounds(s: Seq<u8>, lo: int, hi: int)
    ensures lo <= hi ==> lo <= trim_end(s, lo, hi) <= hi, hi < lo ==> trim_end(s, lo, hi) == lo,
    decreases hi - lo
{
    if hi > lo && 0 <= hi - 1 < s.len() && is_ows(s[hi - 1]) { lemma_trim_end_bounds(s, lo, hi - 1); }
}
pub proof fn lemma_ws_progress(s: Seq<u8>, nlo: int, nhi: int, c: int, cfg: HCfg)
    requires 0 <= c,
    ensures spec_ws(s, nlo, nhi, c, cfg) matches LineRes::Skip(n) ==> c < n <= s.len(),
            spec_ws(s, nlo, nhi, c, cfg) matches LineRes::Header(h, n) ==> c < n <= s.len()
                && h.name_lo == nlo && h.name_hi == nhi && c <= h.val_lo <= h.val_hi,
            !(spec_ws(s, nlo, nhi, c, cfg) is End),
    decreases s.len() - c
{
    if c < s.len() {
        if is_spht(s[c]) { lemma_ws_progress(s, nlo, nhi, c + 1, cfg); }
        else if is_hval(s[c]) { lemma_vlines_progress(s, nlo, nhi, c, c, cfg); }
        else {
            let n = if s[c] == 0x0a { c + 1 } else { c + 2 };
            if s[c] != 0x0d && s[c] != 0x0a { lemma_skip_progress(s, c, Error::HeaderValue); }
            else if cfg.fold && n < s.len() && is_spht(s[n]) { lemma_ws_progress(s, nlo, nhi, n, cfg); }
        }
    }
}
pub proof fn lemma_name_ws_progress(s: Seq<u8>, nlo: int, nhi: int, q: int, cfg: HCfg)
    requires 0 <= q,
    ensures spec_name_ws(s, nlo, nhi, q, cfg) matches LineRes::Skip(n) ==> q < n <= s.len(),
            spec_name_ws(s, nlo, nhi, q, cfg) matches LineRes::Header(h, n) ==> q < n <= s.len()
                && h.name_lo == nlo && h.name_hi == nhi && q < h.val_lo <= h.val_hi,
            !(spec_name_ws(s, nlo, nhi, q, cfg) is End),
    decreases s.len() - q
{
    if q < s.len() {
        if !is_spht(s[q]) { if cfg.ignore { lemma_skip_progress(s, q, Error::HeaderName); } }
        else if q + 1 < s.len() {
            if s[q + 1] == 0x3a { lemma_ws_progress(s, nlo, nhi, q + 2, cfg); } else { lemma_name_ws_progress(s, nlo, nhi, q + 1, cfg); }
        }
    }
}
// C04/C08 shape of one line's result: p <= name_lo < name_hi < val_lo <= val_hi <= next, all inside the buffer
pub proof fn lemma_line_progress(s: Seq<u8>, p: int, first: bool, cfg: HCfg)
    requires 0 <= p,
    ensures spec_line(s, p, first, cfg) matches LineRes::Skip(n) ==> p < n <= s.len(),
            spec_line(s, p, first, cfg) matches LineRes::End(n) ==> p < n <= s.len()
                && ((s[p] == 0x0a && n == p + 1) || (s[p] == 0x0d && s[p + 1] == 0x0a && n == p + 2)),
            spec_line(s, p, first, cfg) matches LineRes::Header(h, n) ==> is_tchar(s[p]) &&
                p == h.name_lo && h.name_lo < h.name_hi && h.name_hi < h.val_lo && h.val_lo <= h.val_hi && h.val_hi < n && n <= s.len(),
{
    if p < s.len() {
        if s[p] == 0x0d || s[p] == 0x0a { }
        else if !is_tchar(s[p]) {
            if !(cfg.sp_before_first && first && is_spht(s[p])) && cfg.ignore { lemma_skip_progress(s, p, Error::HeaderName); }
        } else {
            lemma_first_not_props(cls_tchar(), s, p);
            let e = first_not(cls_tchar(), s, p);
            if e < s.len() {
                if s[e] == 0x3a { lemma_ws_progress(s, p, e, e + 1, cfg); lemma_hdr_val_before_next(s, p, e, e + 1, cfg); }
                else if cfg.sp_after_name { lemma_name_ws_progress(s, p, e, e, cfg); lemma_name_ws_val_before_next(s, p, e, e, cfg); }
                else if cfg.ignore { lemma_skip_progress(s, e, Error::HeaderName); }
            }
        }
    }
}
// val_hi < next (the line end lies between them)
pub proof fn lemma_vlines_val_before_next(s: Seq<u8>, nlo: int, nhi: int, v0: int, from: int, cfg: HCfg)
    requires 0 <= v0 <= from,
    ensures spec_vlines(s, nlo, nhi, v0, from, cfg) matches LineRes::Header(h, n) ==> h.val_hi < n,
    decreases s.len() - from
{
    lemma_first_not_props(cls_hval(), s, if from <= s.len() { from } else { s.len() as int });
    let e = first_not(cls_hval(), s, from);
    if from <= s.len() && from <= e < s.len() {
        let n = if s[e] == 0x0a { e + 1 } else { e + 2 };
        if (s[e] == 0x0d || s[e] == 0x0a) && cfg.fold && n < s.len() && is_spht(s[n]) { lemma_vlines_val_before_next(s, nlo, nhi, v0, n, cfg); }
        lemma_trim_end_bounds(s, v0, e);
        if s[e] != 0x0d && s[e] != 0x0a { lemma_skip_progress(s, e, Error::HeaderValue); }
    }
}
pub proof fn lemma_hdr_val_before_next(s: Seq<u8>, nlo: int, nhi: int, c: int, cfg: HCfg)
    requires 0 <= c,
    ensures spec_ws(s, nlo, nhi, c, cfg) matches LineRes::Header(h, n) ==> h.val_hi < n,
    decreases s.len() - c
{
    if c < s.len() {
        if is_spht(s[c]) { lemma_hdr_val_before_next(s, nlo, nhi, c + 1, cfg); }
        else if is_hval(s[c]) { lemma_vlines_val_before_next(s, nlo, nhi, c, c, cfg); }
        else {
            let n = if s[c] == 0x0a { c + 1 } else { c + 2 };
            if s[c] != 0x0d && s[c] != 0x0a { lemma_skip_progress(s, c, Error::HeaderValue); }
            else if cfg.fold && n < s.len() && is_spht(s[n]) { lemma_hdr_val_before_next(s, nlo, nhi, n, cfg); }
        }
    }
}
pub proof fn lemma_name_ws_val_before_next(s: Seq<u8>, nlo: int, nhi: int, q: int, cfg: HCfg)
    requires 0 <= q,
    ensures spec_name_ws(s, nlo, nhi, q, cfg) matches LineRes::Header(h, n) ==> h.val_hi < n,
    decreases s.len() - q
{
    if q < s.len() {
        if !is_spht(s[q]) { if cfg.ignore { lemma_skip_progress(s, q, Error::HeaderName); } }
        else if q + 1 < s.len() {
            if s[q + 1] == 0x3a { lemma_hdr_val_before_next(s, nlo, nhi, q + 2, cfg); } else { lemma_name_ws_val_before_next(s, nlo, nhi, q + 1, cfg); }
        }
    }
}

// what the block parser answers once the current line's result is known
pub open spec fn hdrs_after(l: LineRes, s: Seq<u8>, acc: Seq<SHdr>, cfg: HCfg, cap: int) -> SRes<Seq<SHdr>>
{
    match l {
        LineRes::End(n) => SRes::Complete(acc, n),
        LineRes::Header(h, n) => if acc.len() >= cap { SRes::Err(Error::TooManyHeaders) } else { spec_hdrs(s, n, acc.push(h), cfg, cap) },
        LineRes::Skip(n) => spec_hdrs(s, n, acc, cfg, cap),
        LineRes::Partial => SRes::Partial,
        LineRes::Err(e) => SRes::Err(e),
    }
}
// the routine's result r / final cursor curf against the oracle's answer
pub open spec fn hdr_post(ans: SRes<Seq<SHdr>>, cur0: int, len: int, r: Result<usize>, curf: int) -> bool {
    match ans {
        SRes::Complete(hs, e) => r == Ok::<Status<usize>, Error>(Status::Complete((e - cur0) as usize)) && curf == e && cur0 <= e <= len,
        SRes::Partial => r == Ok::<Status<usize>, Error>(Status::Partial),
        SRes::Err(e) => r == Err::<Status<usize>, Error>(e),
    }
}
// ---- the block: lines from p on, `acc` = headers reported so far, cap = capacity of the caller's array (C17)
// "TooManyHeaders is returned exactly when one more well-formed header line than the array can hold has been completely received"
pub open spec fn spec_hdrs(s: Seq<u8>, p: int, acc: Seq<SHdr>, cfg: HCfg, cap: int) -> SRes<Seq<SHdr>>
    decreases s.len() - p
    when p >= 0
    via spec_hdrs_decreases
{
    match spec_line(s, p, acc.len() == 0, cfg) {
        LineRes::End(n) => SRes::Complete(acc, n),
        LineRes::Header(h, n) => if acc.len() >= cap { SRes::Err(Error::TooManyHeaders) } else { spec_hdrs(s, n, acc.push(h), cfg, cap) },
        LineRes::Skip(n) => spec_hdrs(s, n, acc, cfg, cap),
        LineRes::Partial => SRes::Partial,
        LineRes::Err(e) => SRes::Err(e),
    }
}
#[via_fn]
proof fn spec_hdrs_decreases(s: Seq<u8>, p: int, acc: Seq<SHdr>, cfg: HCfg, cap: int) {
    lemma_line_progress(s, p, acc.len() == 0, cfg);
}

// ---- the real option record, seen as the oracle's option record
pub open spec fn hcfg(c: &HeaderParserConfig) -> HCfg {
    HCfg { sp_after_name: c.allow_spaces_after_header_name, fold: c.allow_obsolete_multiline_headers,
           sp_before_first: c.allow_space_before_first_header_name, ignore: c.ignore_invalid_headers }
}

// the value scan may start at the first value byte or just after it
pub proof fn lemma_vlines_from(s: Seq<u8>, nlo: int, nhi: int, v0: int, from: int, cfg: HCfg)
    requires 0 <= from < s.len(), is_hval(s[from]),
    ensures spec_vlines(s, nlo, nhi, v0, from, cfg) == spec_vlines(s, nlo, nhi, v0, from + 1, cfg)
{
    lemma_first_not_props(cls_hval(), s, from + 1);
}
// characterisation of trim_end: t is where the trailing OWS begins
pub proof fn lemma_trim_end_char(s: Seq<u8>, lo: int, hi: int, t: int)
    requires 0 <= lo <= t <= hi <= s.len(), forall|k: int| t <= k < hi ==> is_ows(#[trigger] s[k]), t > lo ==> !is_ows(s[t - 1]),
    ensures trim_end(s, lo, hi) == t
    decreases hi - lo
{
    if hi > t { lemma_trim_end_char(s, lo, hi - 1, t); }
}

// a header name (maximal tchar run) is ASCII: what makes from_utf8_unchecked on it sound (C05)
pub proof fn lemma_name_ascii(s: Seq<u8>, p: int)
    requires 0 <= p <= s.len(),
    ensures all_ascii(s.subrange(p, first_not(cls_tchar(), s, p)))
{
    lemma_first_not_props(cls_tchar(), s, p);
    let ne = first_not(cls_tchar(), s, p);
    assert forall|i: int| 0 <= i < ne - p implies s.subrange(p, ne)[i] < 0x80 by { assert(is_tchar(s[p + i])); }
}
// the trailing-whitespace trim of the code (rposition of a non-OWS byte) is trim_end of the oracle
pub proof fn lemma_trim_value(s: Seq<u8>, vlo: int, vend: int, vs: Seq<u8>, hv: Seq<u8>)
    requires 0 <= vlo <= vend <= s.len(), vs == s.subrange(vlo, vend), hv.len() <= vs.len(), hv =~= vs.subrange(0, hv.len() as int),
        forall|j: int| hv.len() <= j < vs.len() ==> is_ows(#[trigger] vs[j]),
        hv.len() > 0 ==> !is_ows(vs[hv.len() - 1]),
    ensures hv == s.subrange(vlo, trim_end(s, vlo, vend))
{
    let t = vlo + hv.len();
    assert forall|k: int| t <= k < vend implies is_ows(#[trigger] s[k]) by { assert(s[k] == vs[k - vlo]); }
    if t > vlo { assert(s[t - 1] == vs[t - 1 - vlo]); }
    lemma_trim_end_char(s, vlo, vend, t);
    assert(hv =~= s.subrange(vlo, t));
}

// ---- one-step unfoldings, stated explicitly.  Inside the (large) header routine the definitions above are hidden and each
//      step of the argument asks for exactly the unfolding it needs: keeps the solver's work proportional to the path.
pub proof fn unfold_skip(s: Seq<u8>, q: int, e: Error)
    ensures spec_skip(s, q, e) == (
        if q < 0 || q >= s.len() { LineRes::Partial }
        else if s[q] == 0x0d {
            if q + 1 >= s.len() { LineRes::Partial } else if s[q + 1] == 0x0a { LineRes::Skip(q + 2) } else { LineRes::Err(e) }
        }
        else if s[q] == 0x0a { LineRes::Skip(q + 1) }
        else if s[q] == 0 { LineRes::Err(e) }
        else { spec_skip(s, q + 1, e) })
{}
pub proof fn unfold_vlines(s: Seq<u8>, nlo: int, nhi: int, v0: int, from: int, cfg: HCfg)
    ensures spec_vlines(s, nlo, nhi, v0, from, cfg) == ({
        let e = first_not(cls_hval(), s, from);
        if from < 0 || e < from || e >= s.len() { LineRes::Partial }
        else {
            let n = if s[e] == 0x0a { e + 1 } else { e + 2 };
            if s[e] == 0x0d && e + 1 >= s.len() { LineRes::Partial }
            else if s[e] == 0x0d && s[e + 1] != 0x0a { LineRes::Err(Error::HeaderValue) }
            else if s[e] != 0x0d && s[e] != 0x0a { spec_invalid(s, e, Error::HeaderValue, cfg) }
            else if cfg.fold && n >= s.len() { LineRes::Partial }
            else if cfg.fold && is_spht(s[n]) { spec_vlines(s, nlo, nhi, v0, n, cfg) }
            else { LineRes::Header(SHdr { name_lo: nlo, name_hi: nhi, val_lo: v0, val_hi: trim_end(s, v0, e) }, n) }
        }
    })
{}
pub proof fn unfold_ws(s: Seq<u8>, nlo: int, nhi: int, c: int, cfg: HCfg)
    ensures spec_ws(s, nlo, nhi, c, cfg) == (
        if c < 0 || c >= s.len() { LineRes::Partial }
        else if is_spht(s[c]) { spec_ws(s, nlo, nhi, c + 1, cfg) }
        else if is_hval(s[c]) { spec_vlines(s, nlo, nhi, c, c, cfg) }
        else {
            let n = if s[c] == 0x0a { c + 1 } else { c + 2 };
            if s[c] == 0x0d && c + 1 >= s.len() { LineRes::Partial }
            else if s[c] == 0x0d && s[c + 1] != 0x0a { LineRes::Err(Error::HeaderValue) }
            else if s[c] != 0x0d && s[c] != 0x0a { spec_invalid(s, c, Error::HeaderValue, cfg) }
            else if cfg.fold && n >= s.len() { LineRes::Partial }
            else if cfg.fold && is_spht(s[n]) { spec_ws(s, nlo, nhi, n, cfg) }
            else { LineRes::Header(SHdr { name_lo: nlo, name_hi: nhi, val_lo: c, val_hi: c }, n) }
        })
{}
pub proof fn unfold_name_ws(s: Seq<u8>, nlo: int, nhi: int, q: int, cfg: HCfg)
    ensures spec_name_ws(s, nlo, nhi, q, cfg) == (
        if q < 0 || q >= s.len() { LineRes::Partial }
        else if !is_spht(s[q]) { spec_invalid(s, q, Error::HeaderName, cfg) }
        else if q + 1 >= s.len() { LineRes::Partial }
        else if s[q + 1] == 0x3a { spec_ws(s, nlo, nhi, q + 2, cfg) }
        else { spec_name_ws(s, nlo, nhi, q + 1, cfg) })
{}
pub proof fn unfold_line(s: Seq<u8>, p: int, first: bool, cfg: HCfg)
    ensures spec_line(s, p, first, cfg) == (
        if p < 0 || p >= s.len() { LineRes::Partial }
        else if s[p] == 0x0d {
            if p + 1 >= s.len() { LineRes::Partial } else if s[p + 1] == 0x0a { LineRes::End(p + 2) } else { LineRes::Err(Error::NewLine) }
        }
        else if s[p] == 0x0a { LineRes::End(p + 1) }
        else if !is_tchar(s[p]) {
            if cfg.sp_before_first && first && is_spht(s[p]) { LineRes::Skip(p + 1) }
            else { spec_invalid(s, p, Error::HeaderName, cfg) }
        }
        else {
            let e = first_not(cls_tchar(), s, p);
            if e >= s.len() { LineRes::Partial }
            else if s[e] == 0x3a { spec_ws(s, p, e, e + 1, cfg) }
            else if cfg.sp_after_name { spec_name_ws(s, p, e, e, cfg) }
            else { spec_invalid(s, e, Error::HeaderName, cfg) }
        })
{}
pub proof fn unfold_hdrs(s: Seq<u8>, p: int, acc: Seq<SHdr>, cfg: HCfg, cap: int)
    requires p >= 0,
    ensures spec_hdrs(s, p, acc, cfg, cap) == hdrs_after(spec_line(s, p, acc.len() == 0, cfg), s, acc, cfg, cap)
{
    reveal_with_fuel(spec_hdrs, 2);
    lemma_line_progress(s, p, acc.len() == 0, cfg);
}

// =====================================================================================================
// Whole messages (C06 / C07 / C15 / C16 / C18): start line, then the header block.
// The oracle takes ONLY the options documented for its message kind (C15: kind separation is the shape of this signature).
// Fields are byte ranges of the buffer; `None` = not assigned by this call.
// =====================================================================================================
pub struct SReq { pub method: Option<(int, int)>, pub path: Option<(int, int)>, pub version: Option<u8>, pub res: SRes<Seq<SHdr>> }
pub struct SResp { pub version: Option<u8>, pub code: Option<u16>, pub reason: Option<(int, int, bool)>, pub res: SRes<Seq<SHdr>> }

pub open spec fn opt_spaces(on: bool, s: Seq<u8>, i: int) -> SRes<()> { if on { spec_spaces(s, i) } else { SRes::Complete((), i) } }
pub open spec fn sres_fail<T, U>(r: SRes<T>) -> SRes<U> { match r { SRes::Err(e) => SRes::Err(e), _ => SRes::Partial } }

// request: "leading empty lines, method SP target SP HTTP-version EOL, header block"; multi = allow_multiple_spaces_in_request_line_delimiters
pub open spec fn spec_request(s: Seq<u8>, multi: bool, sbf: bool, ign: bool, cap: int) -> SReq {
    let z = SReq { method: None, path: None, version: None, res: SRes::Partial };
    match spec_empty_lines(s, 0) {
        SRes::Complete(_, c0) => match spec_token(s, c0) {
            SRes::Complete(m, c1) => { let z = SReq { method: Some(m), ..z };
              match opt_spaces(multi, s, c1) {
                SRes::Complete(_, c2) => match spec_uri(s, c2) {
                    SRes::Complete(p, c3) => { let z = SReq { path: Some(p), ..z };
                      match opt_spaces(multi, s, c3) {
                        SRes::Complete(_, c4) => match spec_version(s, c4) {
                            SRes::Complete(v, c5) => { let z = SReq { version: Some(v), ..z };
                              match spec_eol(s, c5, Error::NewLine) {
                                SRes::Complete(_, c6) => SReq { res: spec_hdrs(s, c6, Seq::empty(),
                                    HCfg { sp_after_name: false, fold: false, sp_before_first: sbf, ignore: ign }, cap), ..z },
                                f => SReq { res: sres_fail(f), ..z },
                              } }
                            f => SReq { res: sres_fail(f), ..z },
                        },
                        f => SReq { res: sres_fail(f), ..z },
                      } }
                    f => SReq { res: sres_fail(f), ..z },
                },
                f => SReq { res: sres_fail(f), ..z },
              } }
            f => SReq { res: sres_fail(f), ..z },
        },
        f => SReq { res: sres_fail(f), ..z },
    }
}
// offset where the header block of a request starts (when the start line is complete)
pub open spec fn one_sp(s: Seq<u8>, i: int, e: Error) -> SRes<()> {
    if i >= s.len() { SRes::Partial } else if s[i] == 0x20 { SRes::Complete((), i + 1) } else { SRes::Err(e) }
}
// after the status code: "either a line end (CRLF or LF) or one SP followed by a possibly empty reason ... and a line end"
pub open spec fn spec_after_code(s: Seq<u8>, i: int, multi: bool) -> SRes<(int, int, bool)> {
    if i >= s.len() { SRes::Partial }
    else if s[i] == 0x20 {
        match opt_spaces(multi, s, i + 1) {
            SRes::Complete(_, c) => spec_reason(s, c),
            f => sres_fail(f),
        }
    } else {
        match spec_eol(s, i, Error::Status) {
            SRes::Complete(_, c) => SRes::Complete((c, c, false), c),     // reason absent: the empty string
            f => sres_fail(f),
        }
    }
}
pub open spec fn spec_response(s: Seq<u8>, multi: bool, san: bool, fold: bool, sbf: bool, ign: bool, cap: int) -> SResp {
    let z = SResp { version: None, code: None, reason: None, res: SRes::Partial };
    match spec_empty_lines(s, 0) {
        SRes::Complete(_, c0) => match spec_version(s, c0) {
            SRes::Complete(v, c1) => { let z = SResp { version: Some(v), ..z };
              match one_sp(s, c1, Error::Version) {
                SRes::Complete(_, c2) => match opt_spaces(multi, s, c2) {
                    SRes::Complete(_, c3) => match spec_code(s, c3) {
                        SRes::Complete(code, c4) => { let z = SResp { code: Some(code), ..z };
                          match spec_after_code(s, c4, multi) {
                            SRes::Complete(rs, c5) => SResp { reason: Some(rs), res: spec_hdrs(s, c5, Seq::empty(),
                                HCfg { sp_after_name: san, fold: fold, sp_before_first: sbf, ignore: ign }, cap), ..z },
                            f => SResp { res: sres_fail(f), ..z },
                          } }
                        f => SResp { res: sres_fail(f), ..z },
                    },
                    f => SResp { res: sres_fail(f), ..z },
                },
                f => SResp { res: sres_fail(f), ..z },
              } }
            f => SResp { res: sres_fail(f), ..z },
        },
        f => SResp { res: sres_fail(f), ..z },
    }
}
// a &str field against the oracle's byte range: assigned => exactly those bytes; not assigned => untouched
pub open spec fn field_is(after: Option<&str>, before: Option<&str>, want: Option<(int, int)>, s: Seq<u8>) -> bool {
    match want {
        Some((lo, hi)) => after matches Some(v) && str_bytes(v) == s.subrange(lo, hi),
        None => after == before,
    }
}
pub open spec fn reason_is(after: Option<&str>, before: Option<&str>, want: Option<(int, int, bool)>, s: Seq<u8>) -> bool {
    match want {
        Some((lo, hi, obs)) => after matches Some(v) && str_bytes(v) == (if obs { Seq::<u8>::empty() } else { s.subrange(lo, hi) }),
        None => after == before,
    }
}
pub open spec fn val_is<T>(after: Option<T>, before: Option<T>, want: Option<T>) -> bool {
    match want { Some(v) => after == Some(v), None => after == before }
}
pub open spec fn status_is(r: Result<usize>, res: SRes<Seq<SHdr>>, len: int) -> bool {
    match res {
        SRes::Complete(hs, n) => r == Ok::<Status<usize>, Error>(Status::Complete(n as usize)) && 0 <= n <= len,
        SRes::Partial => r == Ok::<Status<usize>, Error>(Status::Partial),
        SRes::Err(e) => r == Err::<Status<usize>, Error>(e),
    }
}

// ---- assumed contracts of the two cast wrappers (external: raw-pointer casts).  Each is the contract PROVED for the callee
// (parse_with_config_and_uninit_headers) with capacity = the length of the headers slice held by `self`, plus the restore of
// the slice length on Partial/Err; the wrapper text itself is a Kani leaf against a model of the callee (kani/harnesses.rs).
pub assume_specification<'h, 'b>[ Request::<'h, 'b>::parse_with_config ](this: &mut Request<'h, 'b>, buf: &'b [u8], config: &ParserConfig) -> (r: Result<usize>)
    ensures ({
        let sp = spec_request(buf@, config.allow_multiple_spaces_in_request_line_delimiters, config.allow_space_before_first_header_name,
                              config.ignore_invalid_headers_in_requests, old(this).headers@.len() as int);
        &&& status_is(r, sp.res, buf@.len() as int)
        &&& field_is(final(this).method, old(this).method, sp.method, buf@)
        &&& field_is(final(this).path, old(this).path, sp.path, buf@)
        &&& val_is(final(this).version, old(this).version, sp.version)
        &&& (!(sp.res is Complete) ==> final(this).headers@.len() == old(this).headers@.len())
    });
pub assume_specification<'h, 'b>[ Response::<'h, 'b>::parse_with_config ](this: &mut Response<'h, 'b>, buf: &'b [u8], config: &ParserConfig) -> (r: Result<usize>)
    ensures ({
        let sp = spec_response(buf@, config.allow_multiple_spaces_in_response_status_delimiters, config.allow_spaces_after_header_name_in_responses,
                               config.allow_obsolete_multiline_headers_in_responses, config.allow_space_before_first_header_name,
                               config.ignore_invalid_headers_in_responses, old(this).headers@.len() as int);
        &&& status_is(r, sp.res, buf@.len() as int)
        &&& val_is(final(this).version, old(this).version, sp.version)
        &&& val_is(final(this).code, old(this).code, sp.code)
        &&& reason_is(final(this).reason, old(this).reason, sp.reason, buf@)
        &&& (!(sp.res is Complete) ==> final(this).headers@.len() == old(this).headers@.len())
    });
// derive(Default): all flags false (Kani leaf leaf_default_configs)
pub assume_specification[ <ParserConfig as core::default::Default>::default ]() -> (r: ParserConfig)
    ensures !r.allow_spaces_after_header_name_in_responses, !r.allow_obsolete_multiline_headers_in_responses,
        !r.allow_multiple_spaces_in_request_line_delimiters, !r.allow_multiple_spaces_in_response_status_delimiters,
        !r.allow_space_before_first_header_name, !r.ignore_invalid_headers_in_responses, !r.ignore_invalid_headers_in_requests;
pub assume_specification[ <HeaderParserConfig as core::default::Default>::default ]() -> (r: HeaderParserConfig)
    ensures hcfg(&r) == hcfg_default();
pub assume_specification<'a, 'b, T>[ deinit_slice_mut::<T> ](s: &'a mut &'b mut [T]) -> (r: &'a mut &'b mut [MaybeUninit<T>])
    ensures r@.len() == old(s)@.len();
