//! Native witness search and replay against the REAL crate (built from /repo's working tree), public API only.
//!
//!   witness search <family>         families: chunk | request | response | headers | all
//!   witness replay <entry> <cfgbits> <cap> <hex>
//!
//! `search` generates structured inputs (bounded-exhaustive over byte-class alphabets, boundary byte pairs at every lane
//! phase 0..70, all 128 configs / capacities where relevant), runs the real entry points and compares everything
//! observable with the executable twin of the oracle (refspec.rs) plus direct property oracles (prefix stability, pointer
//! ranges, history independence).  It prints one JSON object per disagreement (first few) and exits 1 if any.
//! It is used only AFTER the verifier rejected or could not decide an obligation, to obtain a replayable failing input.
mod refspec;
use refspec::*;
use std::mem::MaybeUninit;
use std::alloc::{GlobalAlloc, Layout, System};
use std::sync::atomic::{AtomicU64, Ordering};

/// C19: counts allocator calls so that every real parse call can be checked to perform none
struct Counting;
static ALLOCS: AtomicU64 = AtomicU64::new(0);
unsafe impl GlobalAlloc for Counting {
    unsafe fn alloc(&self, l: Layout) -> *mut u8 { ALLOCS.fetch_add(1, Ordering::Relaxed); System.alloc(l) }
    unsafe fn dealloc(&self, p: *mut u8, l: Layout) { System.dealloc(p, l) }
    unsafe fn realloc(&self, p: *mut u8, l: Layout, n: usize) -> *mut u8 { ALLOCS.fetch_add(1, Ordering::Relaxed); System.realloc(p, l, n) }
}
#[global_allocator]
static GLOBAL: Counting = Counting;
static PARSE_ALLOCS: AtomicU64 = AtomicU64::new(0);
/// C01: the input being parsed right now, so that a panic / abort inside the real crate can be attributed to it
static mut CUR: (&str, u8, usize, [u8; 1024], usize) = ("", 0, 0, [0; 1024], 0);
static TICK: AtomicU64 = AtomicU64::new(0);
/// C01 ("never fails to terminate"): if one evaluation does not finish within 20 s the input being parsed is reported (gen = hang)
/// and the search ends; evaluations normally take microseconds.
fn install_watchdog() {
    std::thread::spawn(|| {
        let mut last = u64::MAX; let mut same = 0u32;
        loop {
            std::thread::sleep(std::time::Duration::from_secs(1));
            let t = TICK.load(Ordering::Relaxed);
            if t == last && t != 0 { same += 1; } else { same = 0; last = t; }
            if same >= 20 {
                #[allow(static_mut_refs)]
                let (fam, cfg, cap, buf, n) = unsafe { (CUR.0, CUR.1, CUR.2, CUR.3, CUR.4) };
                println!("{{\"stage\":\"any\",\"gen\":\"panic\",\"family\":\"{}\",\"oracle\":\"panic\",\"entry\":\"{}\",\"cfg\":{},\"cap\":{},\"input_hex\":\"{}\",\"input\":\"{}\",\"real\":\"HANG: the call had not returned after 20 s (evaluations take microseconds)\",\"expected\":\"returns normally\"}}",
                    fam, fam, cfg, cap, hex(&buf[..n]), esc(&buf[..n]));
                std::process::exit(3);
            }
        }
    });
}
fn set_cur(family: &'static str, cfg: u8, cap: usize, buf: &[u8]) {
    TICK.fetch_add(1, Ordering::Relaxed);
    unsafe {
        let n = buf.len().min(1024);
        CUR.0 = family; CUR.1 = cfg; CUR.2 = cap; CUR.4 = n;
        CUR.3[..n].copy_from_slice(&buf[..n]);
    }
}
/// C01: the buffer handed to the parser is a prefix of a larger allocation whose tail is filled with bytes that every
/// scanner class accepts: a read past the end of the buffer keeps scanning and trips the cursor's debug assertion
/// (`cursor <= end`) or changes the result, instead of going unnoticed
fn with_tail(buf: &[u8]) -> Vec<u8> {
    let mut v = Vec::with_capacity(buf.len() + 64);
    v.extend_from_slice(buf);
    v.extend(std::iter::repeat(b'v').take(64));
    v
}
fn install_panic_hook() {
    std::panic::set_hook(Box::new(|info| {
        let (fam, cfg, cap, buf, n) = unsafe { (CUR.0, CUR.1, CUR.2, CUR.3, CUR.4) };
        let msg = format!("{}", info).replace('"', "'").replace('\n', " ");
        println!("{{\"stage\":\"any\",\"gen\":\"panic\",\"family\":\"{}\",\"oracle\":\"panic\",\"entry\":\"{}\",\"cfg\":{},\"cap\":{},\"input_hex\":\"{}\",\"input\":\"{}\",\"real\":\"PANIC: {}\",\"expected\":\"returns normally\"}}",
            fam, fam, cfg, cap, hex(&buf[..n]), esc(&buf[..n]), msg);
    }));
}
fn noalloc<T>(f: impl FnOnce() -> T) -> T {
    let a = ALLOCS.load(Ordering::Relaxed);
    let r = f();
    PARSE_ALLOCS.fetch_add(ALLOCS.load(Ordering::Relaxed) - a, Ordering::Relaxed);
    r
}

fn hex(b: &[u8]) -> String { b.iter().map(|x| format!("{:02x}", x)).collect() }
fn unhex(s: &str) -> Vec<u8> { (0..s.len() / 2).map(|i| u8::from_str_radix(&s[2 * i..2 * i + 2], 16).unwrap()).collect() }
fn esc(b: &[u8]) -> String { b.iter().map(|&c| if (0x20..0x7f).contains(&c) && c != b'"' && c != b'\\' { (c as char).to_string() } else { format!("\\\\x{:02x}", c) }).collect() }

fn kind_of(e: httparse::Error) -> Kind {
    match e {
        httparse::Error::HeaderName => Kind::HeaderName, httparse::Error::HeaderValue => Kind::HeaderValue,
        httparse::Error::NewLine => Kind::NewLine, httparse::Error::Status => Kind::Status, httparse::Error::Token => Kind::Token,
        httparse::Error::TooManyHeaders => Kind::TooManyHeaders, httparse::Error::Version => Kind::Version,
    }
}
fn outcome_of(r: httparse::Result<usize>) -> Outcome {
    match r { Ok(httparse::Status::Complete(n)) => Outcome::Complete(n), Ok(httparse::Status::Partial) => Outcome::Partial, Err(e) => Outcome::Err(kind_of(e)) }
}
static GETTER_BAD: std::sync::atomic::AtomicBool = std::sync::atomic::AtomicBool::new(false);
fn mkcfg(c: Cfg) -> httparse::ParserConfig {
    // every option is first set to the OPPOSITE value and then to the wanted one (a setter must also be able to clear its flag),
    // and the four getters must report what was set (a disagreement is a panic, reported by the panic hook as a finding)
    let mut p = httparse::ParserConfig::default();
    p.allow_spaces_after_header_name_in_responses(!c.sp_after_name_resp).allow_obsolete_multiline_headers_in_responses(!c.fold_resp)
        .allow_multiple_spaces_in_request_line_delimiters(!c.multi_sp_req).allow_multiple_spaces_in_response_status_delimiters(!c.multi_sp_resp)
        .allow_space_before_first_header_name(!c.sp_before_first).ignore_invalid_headers_in_responses(!c.ignore_resp).ignore_invalid_headers_in_requests(!c.ignore_req);
    p.allow_spaces_after_header_name_in_responses(c.sp_after_name_resp);
    p.allow_obsolete_multiline_headers_in_responses(c.fold_resp);
    p.allow_multiple_spaces_in_request_line_delimiters(c.multi_sp_req);
    p.allow_multiple_spaces_in_response_status_delimiters(c.multi_sp_resp);
    p.allow_space_before_first_header_name(c.sp_before_first);
    p.ignore_invalid_headers_in_responses(c.ignore_resp);
    p.ignore_invalid_headers_in_requests(c.ignore_req);
    if !(p.multiple_spaces_in_request_line_delimiters_are_allowed() == c.multi_sp_req && p.multiple_spaces_in_response_status_delimiters_are_allowed() == c.multi_sp_resp
        && p.obsolete_multiline_headers_in_responses_are_allowed() == c.fold_resp && p.space_before_first_header_name_are_allowed() == c.sp_before_first) {
        GETTER_BAD.store(true, Ordering::Relaxed);
    }
    p
}
/// offset range of a sub-slice inside buf, or None if it is not inside
fn range_in(buf: &[u8], p: *const u8, len: usize) -> Option<(usize, usize)> {
    let lo = buf.as_ptr() as usize;
    let q = p as usize;
    if q >= lo && q + len <= lo + buf.len() { Some((q - lo, q - lo + len)) } else { None }
}
const SENT_NAME: &str = "sentinel-name";
const SENT_VAL: &[u8] = b"sentinel-value";

#[derive(Debug, Clone, PartialEq, Eq)]
struct RealReq { outcome: Outcome, method: Option<Option<(usize, usize)>>, path: Option<Option<(usize, usize)>>, version: Option<u8>,
                 headers: Vec<(Option<(usize, usize)>, Option<(usize, usize)>, usize)>, hlen_after: usize, untouched_tail: bool }

fn hdr_ranges(buf: &[u8], hs: &[httparse::Header]) -> Vec<(Option<(usize, usize)>, Option<(usize, usize)>, usize)> {
    hs.iter().map(|h| { vstr(h.name); h }).map(|h| (range_in(buf, h.name.as_ptr(), h.name.len()), range_in(buf, h.value.as_ptr(), h.value.len()), h.value.len())).collect()
}
/// entry: 0 = Request::parse / Response::parse via ParserConfig (init headers), 1 = *_with_uninit_headers
fn real_request(buf: &[u8], cfg: Cfg, cap: usize, entry: u8) -> RealReq {
    let pc = mkcfg(cfg);
    let mut arr = vec![httparse::Header { name: SENT_NAME, value: SENT_VAL }; cap + 1];
    let (outcome, method, path, version, headers, hlen_after);
    if entry == 0 {
        let mut req = httparse::Request::new(&mut arr[..cap]);
        let r = noalloc(|| if cfg == Cfg::default() { req.parse(buf) } else { pc.parse_request(&mut req, buf) });
        outcome = outcome_of(r);
        method = req.method.map(|m| { vstr(m); range_in(buf, m.as_ptr(), m.len()) });
        path = req.path.map(|m| { vstr(m); range_in(buf, m.as_ptr(), m.len()) });
        version = req.version;
        headers = if matches!(outcome, Outcome::Complete(_)) { hdr_ranges(buf, req.headers) } else { vec![] };
        hlen_after = req.headers.len();
    } else {
        let mut un: Vec<MaybeUninit<httparse::Header>> = (0..cap).map(|_| MaybeUninit::uninit()).collect();
        let mut empty: [httparse::Header; 0] = [];
        let mut req = httparse::Request::new(&mut empty);
        let r = noalloc(|| if cfg == Cfg::default() { req.parse_with_uninit_headers(buf, &mut un) } else { pc.parse_request_with_uninit_headers(&mut req, buf, &mut un) });
        outcome = outcome_of(r);
        method = req.method.map(|m| { vstr(m); range_in(buf, m.as_ptr(), m.len()) });
        path = req.path.map(|m| { vstr(m); range_in(buf, m.as_ptr(), m.len()) });
        version = req.version;
        headers = if matches!(outcome, Outcome::Complete(_)) { hdr_ranges(buf, req.headers) } else { vec![] };
        hlen_after = if matches!(outcome, Outcome::Complete(_)) { req.headers.len() } else if req.headers.len() == 0 { cap } else { usize::MAX };
    }
    let nh = headers.len();
    let untouched_tail = entry != 0 || !matches!(outcome, Outcome::Complete(_)) || arr[nh.min(cap)..cap].iter().all(|h| h.name.as_ptr() == SENT_NAME.as_ptr());
    RealReq { outcome, method, path, version, headers, hlen_after, untouched_tail }
}
#[derive(Debug, Clone, PartialEq, Eq)]
struct RealResp { outcome: Outcome, version: Option<u8>, code: Option<u16>, reason: Option<(Option<(usize, usize)>, usize)>,
                  headers: Vec<(Option<(usize, usize)>, Option<(usize, usize)>, usize)>, hlen_after: usize }
fn real_response(buf: &[u8], cfg: Cfg, cap: usize, entry: u8) -> RealResp {
    let pc = mkcfg(cfg);
    let mut arr = vec![httparse::Header { name: SENT_NAME, value: SENT_VAL }; cap];
    if entry == 0 {
        let mut resp = httparse::Response::new(&mut arr[..]);
        let r = noalloc(|| if cfg == Cfg::default() { resp.parse(buf) } else { pc.parse_response(&mut resp, buf) });
        let outcome = outcome_of(r);
        let headers = if matches!(outcome, Outcome::Complete(_)) { hdr_ranges(buf, resp.headers) } else { vec![] };
        RealResp { outcome, version: resp.version, code: resp.code, reason: resp.reason.map(|m| { vstr(m); (range_in(buf, m.as_ptr(), m.len()), m.len()) }), headers, hlen_after: resp.headers.len() }
    } else {
        let mut un: Vec<MaybeUninit<httparse::Header>> = (0..cap).map(|_| MaybeUninit::uninit()).collect();
        let mut empty: [httparse::Header; 0] = [];
        let mut resp = httparse::Response::new(&mut empty);
        let r = noalloc(|| pc.parse_response_with_uninit_headers(&mut resp, buf, &mut un));
        let outcome = outcome_of(r);
        let headers = if matches!(outcome, Outcome::Complete(_)) { hdr_ranges(buf, resp.headers) } else { vec![] };
        let hl = if matches!(outcome, Outcome::Complete(_)) { resp.headers.len() } else if resp.headers.len() == 0 { cap } else { usize::MAX };
        RealResp { outcome, version: resp.version, code: resp.code, reason: resp.reason.map(|m| { vstr(m); (range_in(buf, m.as_ptr(), m.len()), m.len()) }), headers, hlen_after: hl }
    }
}

/// free text inside a JSON string: no double quotes, no backslashes (a Debug-formatted string carries both), no control characters
fn jtxt(t: &str) -> String { let mut o = String::new(); for c in t.chars() { match c { '"' => o.push('\''), '\\' => o.push_str("\\\\"), c if (c as u32) < 0x20 => o.push(' '), c => o.push(c) } } o }
struct Finding { stage: &'static str, gen: &'static str, family: &'static str, oracle: String, entry: String, cfg: u8, cap: usize, input: Vec<u8>, real: String, expected: String }
impl Finding {
    fn json(&self) -> String {
        format!("{{\"stage\":\"{}\",\"gen\":\"{}\",\"family\":\"{}\",\"oracle\":\"{}\",\"entry\":\"{}\",\"cfg\":{},\"cap\":{},\"input_hex\":\"{}\",\"input\":\"{}\",\"real\":\"{}\",\"expected\":\"{}\"}}",
            self.stage, self.gen, self.family, self.oracle, self.entry, self.cfg, self.cap, hex(&self.input), esc(&self.input), jtxt(&self.real), jtxt(&self.expected))
    }
}
/// set by the history checks just before they report: (earlier buffer, its config bits, 1 = *_with_uninit_headers entry points)
static mut HIST: Option<(Vec<u8>, u8, u8)> = None;
struct Ctx { findings: Vec<Finding>, evals: u64, max: usize, gen: &'static str, hist: Vec<Option<(Vec<u8>, u8, u8)>> }
impl Ctx {
    fn add(&mut self, mut f: Finding) {
        f.gen = self.gen;
        // keep a few findings per (family, stage, oracle, gen) so that different kinds of disagreement are all reported
        let kind = |x: &str| -> &'static str { if x.contains("Complete") { "C" } else if x.contains("Partial") { "P" } else { "E" } };
        let same = self.findings.iter().filter(|g| g.family == f.family && g.stage == f.stage && g.oracle == f.oracle && g.gen == f.gen
            && kind(&g.real) == kind(&f.real) && kind(&g.expected) == kind(&f.expected)).count();
        #[allow(static_mut_refs)]
        let h = unsafe { HIST.take() };
        if same < 2 && self.findings.len() < self.max {
            // printed at once: a later crash of the process (a panic inside the crate under test) must not lose what was found
            let j = f.json();
            match &h {
                Some((hb, hc, hu)) => println!("{},\"history_hex\":\"{}\",\"history_cfg\":{},\"history_uninit\":{}}}", &j[..j.len() - 1], hex(hb), hc, hu),
                None => println!("{}", j),
            }
            self.findings.push(f); self.hist.push(h);
        }
    }
    fn print(&self) {}
    fn full(&self) -> bool { self.findings.len() >= self.max }
}

/// C02 asked of the REAL crate alone (no oracle): on an input where a disagreement was found, a decided answer must survive
/// appended bytes, and every shorter prefix must be Partial or already give that same answer.
fn stability_probe(ctx: &mut Ctx, family: &'static str, buf: &[u8], cfgb: u8, cap: usize) {
    let eval = |b: &[u8]| -> Outcome {
        let arena = with_tail(b);
        let b = &arena[..b.len()];
        match family {
            "request" => real_request(b, Cfg::from_bits(cfgb), cap, 0).outcome,
            "response" => real_response(b, Cfg::from_bits(cfgb), cap, 0).outcome,
            "headers" => { let mut arr = vec![httparse::Header { name: SENT_NAME, value: SENT_VAL }; cap];
                           match httparse::parse_headers(b, &mut arr[..]) { Ok(httparse::Status::Complete((n, _))) => Outcome::Complete(n), Ok(httparse::Status::Partial) => Outcome::Partial, Err(e) => Outcome::Err(kind_of(e)) } }
            _ => match httparse::parse_chunk_size(b) { Ok(httparse::Status::Complete((n, _))) => Outcome::Complete(n), Ok(httparse::Status::Partial) => Outcome::Partial, Err(_) => Outcome::Err(Kind::Token) },
        }
    };
    let whole = eval(buf);
    let mut report = |ctx: &mut Ctx, shorter: &[u8], rs: &Outcome, longer: &[u8], rl: &Outcome| {
        ctx.add(Finding { stage: "any", gen: "", family, oracle: "stability".into(), entry: format!("{} (same entry point, a buffer and an extension of it)", family), cfg: cfgb, cap,
            input: longer.to_vec(), real: format!("{:?} on these {} bytes, but {:?} on their first {} bytes", rl, longer.len(), rs, shorter.len()),
            expected: "a Complete/Err answer is unchanged by appended bytes; before it only Partial".into() });
    };
    if whole != Outcome::Partial {
        for ext in [&b"BBBBBBBBBBBBBBBBBBBBBBBBBBBBBBBBBBBBBBBBBBBBBBBBBBBBBBBBBBBBBBBB"[..], b"\r\n\r\n", b" ", b"x"] {
            let mut l = buf.to_vec(); l.extend_from_slice(ext);
            let rl = eval(&l);
            if rl != whole { report(ctx, buf, &whole, &l, &rl); return; }
        }
    }
    for k in 0..buf.len() {
        let rk = eval(&buf[..k]);
        if rk != Outcome::Partial && rk != whole { report(ctx, &buf[..k], &rk, buf, &whole); return; }
    }
}

/// a returned &str shown through its bytes (a string built by an unchecked conversion may not be UTF-8: formatting it as a str is UB)
fn sh(s: Option<&str>) -> String { match s { None => "None".into(), Some(x) => format!("Some({:?})", String::from_utf8_lossy(x.as_bytes())) } }
/// C05: set when a parse call handed out a &str whose bytes are not valid UTF-8
static INVALID_STR: std::sync::atomic::AtomicBool = std::sync::atomic::AtomicBool::new(false);
fn vstr(s: &str) { if std::str::from_utf8(s.as_bytes()).is_err() { INVALID_STR.store(true, Ordering::Relaxed); } }
fn hdrs_match(real: &[(Option<(usize, usize)>, Option<(usize, usize)>, usize)], exp: &[SHdr]) -> bool {
    real.len() == exp.len() && real.iter().zip(exp).all(|(r, e)| r.0 == Some((e.name_lo, e.name_hi)) && (if e.val_hi > e.val_lo { r.1 == Some((e.val_lo, e.val_hi)) } else { r.2 == 0 }))
}

fn check_request(ctx: &mut Ctx, buf: &[u8], cfgb: u8, cap: usize) {
    let arena = with_tail(buf);
    let buf = &arena[..buf.len()];
    set_cur("request", cfgb, cap, buf);
    let cfg = Cfg::from_bits(cfgb);
    let exp = spec_request(buf, cfg, cap);
    for entry in 0..2u8 {
        ctx.evals += 1;
        let real = real_request(buf, cfg, cap, entry);
        let ename = if entry == 0 { "Request::parse|ParserConfig::parse_request" } else { "parse_request_with_uninit_headers" };
        let mut bad: Vec<&str> = vec![];
        if real.outcome != exp.outcome { bad.push(match (&real.outcome, &exp.outcome) { (Outcome::Err(_), Outcome::Err(_)) => "error-kind", _ => "status" }); }
        if real.method != exp.method.map(Some) { bad.push("method"); }
        if real.path != exp.path.map(Some) { bad.push("path"); }
        if real.version != exp.version { bad.push("version"); }
        if matches!(exp.outcome, Outcome::Complete(_)) && real.outcome == exp.outcome && !hdrs_match(&real.headers, &exp.headers) { bad.push("headers"); }
        if !matches!(real.outcome, Outcome::Complete(_)) && real.hlen_after != cap { bad.push("headers-len-restore"); }
        if !real.untouched_tail { bad.push("untouched-slots"); }
        if INVALID_STR.swap(false, Ordering::Relaxed) { bad.push("invalid-utf8"); }
        if !bad.is_empty() {
            let stage = if exp.version.is_some() && real.version.is_some() && !matches!(exp.outcome, Outcome::Err(Kind::NewLine)) { "headers" } else { "startline" };
            ctx.add(Finding { stage, gen: "", family: "request", oracle: bad.join("+"), entry: ename.into(), cfg: cfgb, cap, input: buf.to_vec(), real: format!("{:?}", real), expected: format!("{:?}", exp) });
            if entry == 0 && !ctx.full() { stability_probe(ctx, "request", buf, cfgb, cap); }
        }
    }
}
fn check_response(ctx: &mut Ctx, buf: &[u8], cfgb: u8, cap: usize) {
    let arena = with_tail(buf);
    let buf = &arena[..buf.len()];
    set_cur("response", cfgb, cap, buf);
    let cfg = Cfg::from_bits(cfgb);
    let exp = spec_response(buf, cfg, cap);
    for entry in 0..2u8 {
        ctx.evals += 1;
        let real = real_response(buf, cfg, cap, entry);
        let ename = if entry == 0 { "Response::parse|ParserConfig::parse_response" } else { "parse_response_with_uninit_headers" };
        let mut bad: Vec<&str> = vec![];
        if real.outcome != exp.outcome { bad.push(match (&real.outcome, &exp.outcome) { (Outcome::Err(_), Outcome::Err(_)) => "error-kind", _ => "status" }); }
        if real.version != exp.version { bad.push("version"); }
        if real.code != exp.code { bad.push("code"); }
        match (&real.reason, &exp.reason) {
            (None, None) => {}
            (Some((r, l)), Some((lo, hi, obs))) => {
                if *obs || hi == lo { if *l != 0 { bad.push("reason"); } } else if *r != Some((*lo, *hi)) { bad.push("reason"); }
            }
            _ => bad.push("reason"),
        }
        if matches!(exp.outcome, Outcome::Complete(_)) && real.outcome == exp.outcome && !hdrs_match(&real.headers, &exp.headers) { bad.push("headers"); }
        if !matches!(real.outcome, Outcome::Complete(_)) && real.hlen_after != cap { bad.push("headers-len-restore"); }
        if INVALID_STR.swap(false, Ordering::Relaxed) { bad.push("invalid-utf8"); }
        if !bad.is_empty() {
            let stage = if exp.reason.is_some() && real.reason.is_some() { "headers" } else { "startline" };
            ctx.add(Finding { stage, gen: "", family: "response", oracle: bad.join("+"), entry: ename.into(), cfg: cfgb, cap, input: buf.to_vec(), real: format!("{:?}", real), expected: format!("{:?}", exp) });
            if entry == 0 && !ctx.full() { stability_probe(ctx, "response", buf, cfgb, cap); }
        }
    }
}
fn check_headers(ctx: &mut Ctx, buf: &[u8], cap: usize) {
    let arena = with_tail(buf);
    let buf = &arena[..buf.len()];
    set_cur("headers", 0, cap, buf);
    ctx.evals += 1;
    let exp = spec_hdrs(buf, 0, HCfg::default(), cap);
    let mut arr = vec![httparse::Header { name: SENT_NAME, value: SENT_VAL }; cap];
    let r = noalloc(|| httparse::parse_headers(buf, &mut arr[..]));
    let (real_s, ok) = match (&r, &exp) {
        (Ok(httparse::Status::Complete((n, hs))), SRes::Complete(ehs, en)) => (format!("Complete({}, {:?})", n, hdr_ranges(buf, hs)), n == en && hdrs_match(&hdr_ranges(buf, hs), ehs)),
        (Ok(httparse::Status::Partial), SRes::Partial) => ("Partial".into(), true),
        (Err(e), SRes::Err(k)) => (format!("Err({:?})", e), kind_of(*e) == *k),
        (r, _) => (format!("{:?}", r.as_ref().map(|s| match s { httparse::Status::Complete((n, hs)) => format!("Complete({}, {} headers)", n, hs.len()), httparse::Status::Partial => "Partial".into() })), false),
    };
    if !ok { ctx.add(Finding { stage: "headers", gen: "", family: "headers", oracle: "parse_headers".into(), entry: "parse_headers".into(), cfg: 0, cap, input: buf.to_vec(), real: real_s, expected: format!("{:?}", exp) });
             if !ctx.full() { stability_probe(ctx, "headers", buf, 0, cap); } }
}
fn check_chunk(ctx: &mut Ctx, buf: &[u8]) {
    let arena = with_tail(buf);
    let buf = &arena[..buf.len()];
    set_cur("chunk", 0, 0, buf);
    ctx.evals += 1;
    let exp = spec_chunk(buf);
    let r = noalloc(|| httparse::parse_chunk_size(buf));
    let ok = match (&r, &exp) {
        (Ok(httparse::Status::Complete((n, v))), SChunk::Complete(en, ev)) => n == en && (*v as u128) == *ev,
        (Ok(httparse::Status::Partial), SChunk::Partial) => true,
        (Err(_), SChunk::Invalid) => true,
        _ => false,
    };
    if !ok { ctx.add(Finding { stage: "chunk", gen: "", family: "chunk", oracle: "parse_chunk_size".into(), entry: "parse_chunk_size".into(), cfg: 0, cap: 0, input: buf.to_vec(), real: format!("{:?}", r), expected: format!("{:?}", exp) });
             if !ctx.full() { stability_probe(ctx, "chunk", buf, 0, 0); } }
}

/// all strings over `alpha` of length 0..=maxlen, each appended to `prefix` and followed by `suffix`
fn enumerate(alpha: &[u8], maxlen: usize, prefix: &[u8], suffix: &[u8], f: &mut dyn FnMut(&[u8]) -> bool) {
    let mut idx = vec![0usize; 0];
    let mut buf: Vec<u8> = Vec::new();
    loop {
        buf.clear(); buf.extend_from_slice(prefix); buf.extend(idx.iter().map(|&i| alpha[i])); buf.extend_from_slice(suffix);
        if !f(&buf) { return; }
        // next
        let mut k = idx.len();
        loop {
            if k == 0 { if idx.len() == maxlen { return; } idx = vec![0; idx.len() + 1]; break; }
            k -= 1;
            if idx[k] + 1 < alpha.len() { idx[k] += 1; for j in k + 1..idx.len() { idx[j] = 0; } break; }
        }
    }
}
const LONG_BAD: &[u8] = &[0x00, 0x09, 0x0a, 0x0d, 0x1f, 0x20, 0x3a, 0x7f, 0xff];
const BOUNDARY: &[u8] = &[0x00, 0x01, 0x08, 0x09, 0x0a, 0x0b, 0x0d, 0x1f, 0x20, 0x21, 0x22, 0x2f, 0x30, 0x39, 0x3a, 0x3b, 0x41, 0x5a, 0x61, 0x7a, 0x7e, 0x7f, 0x80, 0x9f, 0xa0, 0xc3, 0xe1, 0xff];

fn search_chunk(ctx: &mut Ctx) {
    let alpha = [b'0', b'9', b'a', b'F', b'g', b' ', b'\t', b';', b'\r', b'\n', 0u8, b'x', 0xff, b'G'];
    enumerate(&alpha, 5 + deep(), b"", b"", &mut |b| { check_chunk(ctx, b); !ctx.full() });
    enumerate(&[b'a', b'\r', b'\n', b';', b' '], 6 + deep(), b"1;", b"", &mut |b| { check_chunk(ctx, b); !ctx.full() });
    for prefix in [&b"1"[..], b"fF", b"0;", b"a \t"] {
        enumerate(&alpha, 4 + deep(), prefix, b"", &mut |b| { check_chunk(ctx, b); !ctx.full() });
    }
    for n in 0..=20usize {
        for d in [b'0', b'1', b'f', b'F', b'9', b'a'] {
            for first in [b'0', b'1', b'f', b'8'] {
                let mut v = vec![d; n]; if n > 0 { v[0] = first; }
                for suf in [&b"\r\n"[..], b"", b"\r", b";x\r\n", b" \r\n", b"\n", b"g\r\n", b" 1\r\n", b";a\rb\r\n", b";a\nb\r\n", b";\n", b";a\r\r\nX\r\n", b";a\r\r\n", b"\r\r\n"] {
                    let mut b = v.clone(); b.extend_from_slice(suf); check_chunk(ctx, &b);
                }
            }
        }
    }
}

/// Values for the adjacent-pair sweep: both neighbours of every class boundary of C12 / C06-C09 plus the bytes that bit tricks
/// tend to alias (case folding 0x10-0x19 -> digits, 0x3a-0x3f "digit" nibbles, 0x08 next to HTAB, ...)
const PAIR: &[u8] = &[0x00, 0x01, 0x08, 0x09, 0x0a, 0x0b, 0x0c, 0x0d, 0x0e, 0x10, 0x11, 0x19, 0x1a, 0x1f, 0x20, 0x21, 0x22, 0x28, 0x29, 0x2c, 0x2d,
    0x2f, 0x30, 0x31, 0x39, 0x3a, 0x3b, 0x3f, 0x40, 0x41, 0x46, 0x47, 0x5a, 0x5b, 0x5d, 0x60, 0x61, 0x66, 0x67, 0x7a, 0x7b, 0x7e, 0x7f,
    0x80, 0x89, 0xa0, 0xbf, 0xc2, 0xff];
/// Template sweeps: in each well-formed template message, EVERY position takes EVERY byte value (0..=255), and every pair of
/// adjacent positions takes every pair of PAIR values; each mutated message is checked whole and cut 1..=9 bytes after the
/// mutated position (fast paths that need k buffered bytes, the last <8 / <16 / <32 bytes of a buffer).
fn search_sweep(ctx: &mut Ctx) {
    // (kind, template, configs): kind 0 = request, 1 = response, 2 = parse_headers, 3 = parse_chunk_size
    let templates: &[(u8, &[u8], &[u8])] = &[
        (0, b"GET /index.html?q=1 HTTP/1.1\r\nHost: example.com\r\nX-Long-Header-Name_1: some value, here\t!\r\n\r\n", &[0, 4 + 16 + 64]),
        (0, b"\r\n\nOPTIONS * HTTP/1.0\nA:b\nAccept-Encoding:  gzip \n\n", &[0, 64]),
        (0, b"DELETE  /a/b  HTTP/1.1\r\nEmpty:\r\nK:\t v \r\n\r\n", &[4, 0]),
        (0, b"PUT /caf\xc3\xa9/\xe2\x82\xac HTTP/1.1\r\nBad Name: x\r\nOk: 1\r\n\r\n", &[0, 64]),
        (1, b"HTTP/1.1 200 OK\r\nServer: nginx/1.2\r\nContent-Length: 12345\r\n\r\n", &[0, 1 + 2 + 8 + 16 + 32]),
        (1, b"HTTP/1.0 404\r\n\r\n", &[0, 8]),
        (1, b"\r\nHTTP/1.1 301  Moved Permanently \r\nLocation : /a b\r\n folded\r\n\tmore \r\nBad Name\r\nZ: 1\r\n\r\n", &[1 + 2 + 8 + 32, 2, 0]),
        (1, b"HTTP/1.1 500 caf\xc3\xa9 \xff\n \t X: 1\nY: 2\n\n", &[16, 0]),
        (1, b"HTTP/1.1 200 OK\r\nX: bar\r\n \r\n\t \r\nY: 1\n \n\r\n", &[2, 0]),
        (2, b"Host: a\r\nCookie: k=v; x=y\r\nX-Forwarded-For-0123456789-abcdefgh-ABCDEFGH: 0123456789 abcdefghijklmnopqrstuvwxyz\r\n\r\n", &[0]),
        (2, b"a:b\nC-d: e f\t\n\n", &[0]),
        (3, b"1aF;ext=1\r\n", &[0]),
        (3, b"0\r\n", &[0]),
        (3, b"fFfFfFfF0 \t\r\n", &[0]),
        (3, b"00000000000000001\r\n", &[0]),
    ];
    let run = |ctx: &mut Ctx, kind: u8, m: &[u8], cfgs: &[u8]| {
        match kind {
            0 => for &c in cfgs { check_request(ctx, m, c, 3) },
            1 => for &c in cfgs { check_response(ctx, m, c, 3) },
            2 => { check_headers(ctx, m, 3); check_headers(ctx, m, 2) }
            _ => check_chunk(ctx, m),
        }
    };
    for &(kind, t, cfgs) in templates {
        for i in 0..t.len() {
            let mut m = t.to_vec();
            ctx.gen = "byte-sweep";
            for v in 0..=255u8 {
                m[i] = v;
                run(ctx, kind, &m, cfgs);
                for e in i + 1..=(i + 9).min(t.len() - 1) { run(ctx, kind, &m[..e], &cfgs[..1]); }
            }
            if ctx.full() { return; }
            if i + 1 < t.len() {
                ctx.gen = "pair-sweep";
                for &a in PAIR { for &b in PAIR {
                    m[i] = a; m[i + 1] = b;
                    run(ctx, kind, &m, &cfgs[..1]);
                    run(ctx, kind, &m[..(i + 10).min(t.len())], &cfgs[..1]);
                } }
            }
            if ctx.full() { return; }
        }
    }
    ctx.gen = "enum";
}

/// Dictionary seeds: every string / byte-string literal of the crate's non-test source (tools/witness.py writes them, one hex
/// line each, to the file named by WITNESS_DICT).  A fast path that recognises one exact spelling is reached only by that
/// spelling: each literal is tried alone, cut at every prefix, and embedded at the places a message can carry it.
fn search_dict(ctx: &mut Ctx) {
    let path = match std::env::var("WITNESS_DICT") { Ok(p) => p, Err(_) => return };
    let text = match std::fs::read_to_string(&path) { Ok(t) => t, Err(_) => return };
    ctx.gen = "dictionary";
    let lits: Vec<Vec<u8>> = text.lines().filter(|l| !l.trim().is_empty()).map(|l| unhex(l.trim())).filter(|l| l.len() >= 2 && l.len() <= 200).collect();
    let cat = |parts: &[&[u8]]| -> Vec<u8> { let mut v = vec![]; for p in parts { v.extend_from_slice(p); } v };
    for lit in &lits {
        let l: &[u8] = lit;
        let forms: Vec<Vec<u8>> = vec![
            l.to_vec(), cat(&[l, b" / HTTP/1.1\r\n\r\n"]), cat(&[l, b"/ HTTP/1.1\r\n\r\n"]), cat(&[l, b"/x HTTP/1.0\r\nA: b\r\n\r\n"]), cat(&[l, b"\r\n\r\n"]), cat(&[l, b"\r\n"]), cat(&[l, b"\n\n"]),
            cat(&[l, b" 200 OK\r\n\r\n"]), cat(&[l, b"200 OK\r\n\r\n"]), cat(&[l, b"A: b\r\n\r\n"]), cat(&[l, b"x"]), cat(&[l, b" "]), cat(&[l, b"\t/ HTTP/1.1\r\n\r\n"]),
            cat(&[b"GET ", l, b" HTTP/1.1\r\n\r\n"]), cat(&[b"GET /", l, b" HTTP/1.1\r\nHost: x\r\n\r\n"]), cat(&[b"GET / ", l, b"\r\n\r\n"]), cat(&[b"GET / ", l]),
            cat(&[b"HTTP/1.1 200 ", l, b"\r\n\r\n"]), cat(&[b"HTTP/1.1 ", l, b"\r\n\r\n"]), cat(&[b"HTTP/1.1 ", l]), cat(&[b"\r\n", l]), cat(&[b"\n", l, b"\r\n\r\n"]),
            cat(&[b"GET / HTTP/1.1\r\n", l, b": v\r\n\r\n"]), cat(&[b"GET / HTTP/1.1\r\nN: ", l, b"\r\n\r\n"]), cat(&[b"HTTP/1.1 200 OK\r\nN:", l, b"\r\n\r\n"]),
            cat(&[b"1", l, b"\r\n"]), cat(&[b"1;", l, b"\r\n"]),
        ];
        for f in &forms {
            for &c in &[0u8, 4 + 64 + 16, 127] { check_request(ctx, f, c, 2); }
            for &c in &[0u8, 8 + 32 + 16, 127] { check_response(ctx, f, c, 2); }
            check_headers(ctx, f, 2);
            check_chunk(ctx, f);
        }
        for k in 0..l.len() { check_request(ctx, &l[..k], 0, 1); check_response(ctx, &l[..k], 0, 1); check_chunk(ctx, &l[..k]); }
        if ctx.full() { return; }
    }
    ctx.gen = "enum";
}
/// Wide vector strides: two bytes of a boundary alphabet exactly 16 / 32 / 64 / 96 bytes apart inside a long target, value or
/// name (a scanner that folds several vectors before testing them confuses lanes that far apart), at every offset of three
/// 128-byte blocks; and folded header values of every first-line / continuation length with 0..64 bytes behind the head (a
/// scanner tail that looks back over the bytes before the cursor meets the fold's CRLF there).
fn search_strides(ctx: &mut Ctx) {
    ctx.gen = "stride-pairs";
    const S: &[u8] = &[0x00, 0x09, 0x0a, 0x0d, 0x1f, 0x20, 0x7f, 0x80, 0xff];
    for &d in &[16usize, 32, 64, 96] { for p in 0..384usize { for &x in S { for &y in S {
        if x == b'v' && y == b'v' { continue; }
        let mut v = pad(b'v', 384 + 128); v[p] = x; v[p + d] = y;
        let mut m = b"N: ".to_vec(); m.extend(&v); m.extend(b"\r\nM: x\r\n\r\n");
        check_headers(ctx, &m, 3);
        if p % 4 == 0 {
            let mut r = b"GET /".to_vec(); r.extend(&v); r.extend(b" HTTP/1.1\r\n\r\n"); check_request(ctx, &r, 0, 1);
            let mut n = v.clone(); for b in n.iter_mut() { if *b == b'v' { *b = b'n'; } } n.extend(b": v\r\n\r\n"); check_headers(ctx, &n, 2);
        }
        if ctx.full() { return; }
    } } } }
    // long lines that have not ended yet, with a byte that already decides the outcome somewhere in them (an "optimisation" that
    // postpones validation until the line end arrives), and long heads that are complete
    ctx.gen = "long-unterminated";
    for &total in &[60usize, 300, 511, 512, 513, 600, 1100, 2100, 4095, 4096, 4097, 5000, 9000] {
        for &p in &[0usize, 1, 17, total / 2, total - 2, total - 1] { for &bad in &[0x00u8, 0x01, 0x7f, b'\r'] {
            let mut v = pad(b'v', total); v[p] = bad; if bad == b'\r' && p + 1 < total { v[p + 1] = b'x'; }
            let mut h = b"Host: a\r\nN: ".to_vec(); h.extend(&v);
            check_headers(ctx, &h, 4);
            let mut m = b"GET / HTTP/1.1\r\n".to_vec(); m.extend(&h); check_request(ctx, &m, 0, 4); check_request(ctx, &m, 64, 4);
            let mut r = b"HTTP/1.1 200 OK\r\n".to_vec(); r.extend(&h); check_response(ctx, &r, 0, 4); check_response(ctx, &r, 2 + 32, 4);
            let mut n = pad(b'n', total); n[p] = if bad == b'\r' { b' ' } else { bad };
            let mut hn = b"Host: a\r\n".to_vec(); hn.extend(&n); check_headers(ctx, &hn, 4);
            let mut t = b"GET /".to_vec(); t.extend(pad(b'a', total)); let tl = t.len(); t[tl - total + p] = if bad == b'\r' { b'\t' } else { bad }; check_request(ctx, &t, 0, 1);
            let mut c = b"1f;".to_vec(); c.extend(pad(b'e', total)); let cl = c.len(); c[cl - total + p] = if bad == b'\r' { b'\r' } else { b'\n' }; c.push(b'z'); check_chunk(ctx, &c);
            if ctx.full() { return; }
        } }
        // too many complete header lines in a long block without its final empty line
        let mut many = vec![]; while many.len() < total { many.extend_from_slice(b"A: b\r\n"); }
        check_headers(ctx, &many, 3);
        let mut m = b"GET / HTTP/1.1\r\n".to_vec(); m.extend(&many); check_request(ctx, &m, 0, 3);
    }
    ctx.gen = "fold-lengths";
    for l1 in 0..72usize { for l2 in 0..40usize { for &t in &[0usize, 1, 8, 31, 32, 64] { for eol in [&b"\r\n"[..], b"\n"] {
        let mut m = b"HTTP/1.1 200 OK\r\nX: ".to_vec(); m.extend(pad(b'a', l1)); m.extend_from_slice(eol); m.push(b' '); m.extend(pad(b'b', l2)); m.extend_from_slice(eol); m.extend_from_slice(eol);
        m.extend(pad(b'B', t));
        check_response(ctx, &m, 2, 2);
        if l2 % 8 == 0 { check_response(ctx, &m, 2 + 32, 2); check_response(ctx, &m, 0, 2); }
        if ctx.full() { return; }
    } } } }
    ctx.gen = "enum";
}

/// C01, "whatever lies after the buffer in memory": every input of this family is parsed in place at the END of a mapping whose next
/// page is PROT_NONE, so a read of even one byte past the buffer is a SIGSEGV.  Each input is announced on stdout before it is
/// parsed; the driver (tools/witness.py) turns a death by signal into a finding for the last announced input.
#[cfg(all(target_os = "linux", target_arch = "x86_64"))]
mod guard {
    use core::arch::asm;
    unsafe fn syscall6(n: usize, a1: usize, a2: usize, a3: usize, a4: usize, a5: usize, a6: usize) -> isize {
        let ret: isize;
        asm!("syscall", inlateout("rax") n as isize => ret, in("rdi") a1, in("rsi") a2, in("rdx") a3, in("r10") a4, in("r8") a5, in("r9") a6,
             lateout("rcx") _, lateout("r11") _, options(nostack));
        ret
    }
    pub struct Arena { base: *mut u8, data: usize }
    impl Arena {
        pub fn new(pages: usize) -> Option<Arena> {
            unsafe {
                let len = (pages + 1) * 4096;
                let p = syscall6(9, 0, len, 3 /* READ|WRITE */, 0x22 /* PRIVATE|ANONYMOUS */, usize::MAX, 0);
                if p < 0 { return None; }
                if syscall6(10, p as usize + pages * 4096, 4096, 0 /* PROT_NONE */, 0, 0, 0) != 0 { return None; }
                Some(Arena { base: p as *mut u8, data: pages * 4096 })
            }
        }
        /// a copy of `d` that ends exactly where the unmapped page begins
        pub fn place<'a>(&'a self, d: &[u8]) -> &'a [u8] {
            assert!(d.len() <= self.data);
            unsafe {
                let dst = self.base.add(self.data - d.len());
                core::ptr::copy_nonoverlapping(d.as_ptr(), dst, d.len());
                core::slice::from_raw_parts(dst, d.len())
            }
        }
    }
}
#[cfg(all(target_os = "linux", target_arch = "x86_64"))]
fn search_guard(ctx: &mut Ctx) {
    use std::io::Write;
    let arena = match guard::Arena::new(4) { Some(a) => a, None => { eprintln!("guard: mmap failed"); return; } };
    let mut run = |ctx: &mut Ctx, kind: u8, d: &[u8], cfgb: u8| {
        if d.len() > 16000 { return; }
        let b = arena.place(d);
        println!("GUARD-TRY {} {} {}", kind, cfgb, hex(d));
        let _ = std::io::stdout().flush();
        ctx.evals += 1;
        match kind {
            0 => { for e in 0..2u8 { let _ = real_request(b, Cfg::from_bits(cfgb), 3, e); } }
            1 => { for e in 0..2u8 { let _ = real_response(b, Cfg::from_bits(cfgb), 3, e); } }
            2 => { let mut arr = vec![httparse::Header { name: SENT_NAME, value: SENT_VAL }; 3]; let _ = httparse::parse_headers(b, &mut arr[..]); }
            _ => { let _ = httparse::parse_chunk_size(b); }
        }
    };
    let msgs: &[(u8, &[u8], &[u8])] = &[
        (0, b"GET /index.html?q=1 HTTP/1.1\r\nHost: example.com\r\nX-Long-Header-Name_1: some value, here\t!\r\nA:\r\n\r\n", &[0, 4 + 16 + 64]),
        (0, b"POST /p HTTP/1.0\nA:b\n\n", &[0]), (0, b"DELETE  /a  HTTP/1.1\r\n\r\n", &[4]),
        (1, b"HTTP/1.1 200 OK\r\nServer: nginx/1.2\r\nContent-Length: 12345\r\n\r\n", &[0, 127]),
        (1, b"HTTP/1.1 301  Moved \r\nLocation : /a b\r\n folded\r\n\tmore \r\nBad Name\r\nZ: 1\r\n\r\n", &[1 + 2 + 8 + 32]),
        (2, b"Host: a\r\nCookie: k=v; x=y\r\nX-Forwarded-For-0123456789-abcdefgh: 0123456789 abcdefghijklmnopqrstuvwxyz\r\n\r\n", &[0]),
        (3, b"1aF;ext=1\r\n", &[0]), (3, b"fFfFfFfF0 \t\r\n", &[0]),
    ];
    for &(kind, m, cfgs) in msgs { for &c in cfgs { for k in 0..=m.len() { run(ctx, kind, &m[..k], c); } } }
    // long fields ending at every length (every block phase of every scanner meets the end of the mapping)
    for l in 0..=200usize {
        let mut t = b"GET /".to_vec(); t.extend(pad(b'a', l)); run(ctx, 0, &t, 0);
        let mut v = b"GET / HTTP/1.1\r\nN: ".to_vec(); v.extend(pad(b'v', l)); run(ctx, 0, &v, 0);
        let mut n = b"HTTP/1.1 200 OK\r\n".to_vec(); n.extend(pad(b'n', l)); run(ctx, 1, &n, 0);
        let mut r = b"HTTP/1.1 200 ".to_vec(); r.extend(pad(b'r', l)); run(ctx, 1, &r, 0);
        let mut h = b"N: ".to_vec(); h.extend(pad(b'v', l)); run(ctx, 2, &h, 0);
        let mut c = b"1;".to_vec(); c.extend(pad(b'e', l)); run(ctx, 3, &c, 0);
        let mut f = b"HTTP/1.1 200 OK\r\nX: ".to_vec(); f.extend(pad(b'a', l)); f.extend(b"\r\n "); run(ctx, 1, &f, 2); f.extend(pad(b'b', l % 40)); run(ctx, 1, &f, 2);
    }
    println!("GUARD-DONE");
}
#[cfg(not(all(target_os = "linux", target_arch = "x86_64")))]
fn search_guard(_ctx: &mut Ctx) {}

fn pad(c: u8, n: usize) -> Vec<u8> { vec![c; n] }
/// WITNESS_DEEP=k (thorough tier): every bounded-exhaustive enumeration goes k symbols deeper
fn deep() -> usize { std::env::var("WITNESS_DEEP").ok().and_then(|v| v.parse().ok()).unwrap_or(0) }

fn search_request(ctx: &mut Ctx) {
    let alpha = [b'G', b' ', b'/', b'\r', b'\n', b'\t', 0u8, 0x7f, 0xff, b':', b'H', b'1'];
    for cfgb in [0u8, 4, 16 + 64, 127] {
        enumerate(&alpha, 5 + deep(), b"", b"", &mut |b| { check_request(ctx, b, cfgb, 1); !ctx.full() });
        for prefix in [&b"GET "[..], b"POST ", b"POS", b"DELE", b"DELET", b"DELETE ", b"PUT ", b"HEAD", b"OPTI", b"PATC", b"CONN", b"TRAC", b"GET / ", b"GET / HTTP/1.", b"GET / HTTP/1.1", b"GET / HTTP/1.1\r\n", b"\r\n\nX "] {
            enumerate(&alpha, 4 + deep(), prefix, b"", &mut |b| { check_request(ctx, b, cfgb, 1); !ctx.full() });
        }
        if ctx.full() { return; }
    }
    // every prefix of well-formed requests; boundary bytes at every position and lane phase of the target
    ctx.gen = "lane-sweep";
    for cfgb in [0u8, 4] {
        for tl in 0..=70usize {
            for &b1 in BOUNDARY { for &b2 in [b'a', 0xff, b'~', 0x1f, b' '].iter() {
                let mut t = pad(b'a', tl); t.push(b1); t.push(b2);
                let mut m = b"GET /".to_vec(); m.extend(&t); m.extend(b" HTTP/1.1\r\n\r\n");
                check_request(ctx, &m, cfgb, 0);
                if ctx.full() { return; }
            } }
            let mut m = b"GET /".to_vec(); m.extend(pad(b'x', tl)); m.extend(b" HTTP/1.1\r\nH: v\r\n\r\n");
            for k in 0..=m.len() { check_request(ctx, &m[..k], cfgb, 1); }
        }
    }
    // wide (unrolled) vector steps: a forbidden byte / the delimiter at every offset up to 300, with more than 128 bytes behind it
    ctx.gen = "long-sweep";
    for p in 64..=300usize { for &b1 in LONG_BAD {
        let mut m = b"GET /".to_vec(); m.extend(pad(b'a', p)); m.push(b1); m.extend(pad(b'a', 440 - p)); m.extend(b" HTTP/1.1\r\n\r\n");
        check_request(ctx, &m, 0, 0);
        if ctx.full() { return; }
    } }
    for tl in 64..=300usize {
        let mut m = b"GET /".to_vec(); m.extend(pad(b'a', tl)); m.extend(b" HTTP/1.1\r\nHost: example\r\n\r\n"); m.extend(pad(b'B', 200));
        check_request(ctx, &m, 0, 1);
    }
    ctx.gen = "buffer-end";
    for l in 0..=100usize { let mut m = b"GET /".to_vec(); m.extend(pad(b'x', l)); check_request(ctx, &m, 0, 1); }
    // version literal and method variants
    ctx.gen = "enum";
    for v in [&b"HTTP/1.0"[..], b"HTTP/1.1", b"HTTP/1.2", b"http/1.1", b"HTTP/1.", b"HTTP/2.0", b"HTTP/1.11", b"XTTP/1.1", b"HTTP/1,1"] {
        for eol in [&b"\r\n\r\n"[..], b"\n\n", b"\r\r\n", b"\r", b""] {
            for m in [&b"GET"[..], b"POST", b"PUT", b"GE", b"G", b"", b"POSTX", b"GET\t", b"P\x7fST"] {
                let mut b = m.to_vec(); b.extend(b" / "); b.extend(v); b.extend(eol);
                for cfgb in [0u8, 4] { check_request(ctx, &b, cfgb, 1); }
            }
        }
    }
    search_header_block(ctx, b"GET / HTTP/1.1\r\n", 0);
    search_header_block(ctx, b"\nPOST /p HTTP/1.0\n", 0);
}
fn search_response(ctx: &mut Ctx) {
    let alpha = [b'2', b' ', b'O', b'\r', b'\n', b'\t', 0u8, 0x7f, 0xff, 0x80, b'H'];
    for cfgb in [0u8, 8, 1 + 2 + 16 + 32, 127] {
        for prefix in [&b""[..], b"HTTP/1.1", b"HTTP/1.1 ", b"HTTP/1.1 20", b"HTTP/1.1 200", b"HTTP/1.1 200 ", b"HTTP/1.0 404 N"] {
            enumerate(&alpha, 4 + deep(), prefix, b"", &mut |b| { check_response(ctx, b, cfgb, 1); !ctx.full() });
        }
        if ctx.full() { return; }
    }
    for code in 0..1000u32 {
        let b = format!("HTTP/1.1 {:03} OK\r\n\r\n", code).into_bytes(); check_response(ctx, &b, 0, 0);
    }
    ctx.gen = "lane-sweep";
    for rl in 0..=40usize { for &b1 in BOUNDARY { for &b2 in [b'a', 0xa9, 0x7f, 0x1f].iter() {
        let mut m = b"HTTP/1.1 200 ".to_vec(); m.extend(pad(b'r', rl)); m.push(b1); m.push(b2); m.extend(b"x\r\n\r\n");
        for cfgb in [0u8, 8] { check_response(ctx, &m, cfgb, 0); }
        if ctx.full() { return; }
    } } }
    ctx.gen = "enum";
    for m in [&b"HTTP/1.1 200\r"[..], b"HTTP/1.1 200\r\n", b"HTTP/1.1200 OK\r\n\r\n", b"HTTP/1.1  200 OK\r\n\r\n", b"HTTP/1.1 200  OK\r\n\r\n", b"HTTP/1.1 200 Caf\xc3\xa9\r\n\r\n", b"HTTP/1.1 2000\r\n\r\n", b"HTTP/1.1 +20 \r\n\r\n", b"HTTP/1.1 20\r\n\r\n", b"HTTP/1.1\t200 OK\r\n\r\n"] {
        for cfgb in 0..128u8 { for k in 0..=m.len() { check_response(ctx, &m[..k], cfgb, 1); } }
    }
    search_header_block(ctx, b"HTTP/1.1 200 OK\r\n", 1);
    search_header_block(ctx, b"HTTP/1.0 404\n", 1);
}
/// header-block inputs after a start line (kind 0 = request, 1 = response, 2 = parse_headers)
fn search_header_block(ctx: &mut Ctx, start: &[u8], kind: u8) {
    let run = |ctx: &mut Ctx, block: &[u8], cfgs: &[u8], caps: &[usize]| {
        let mut b = start.to_vec(); b.extend_from_slice(block);
        for &cap in caps {
            match kind {
                0 => for &c in cfgs { check_request(ctx, &b, c, cap) },
                1 => for &c in cfgs { check_response(ctx, &b, c, cap) },
                _ => check_headers(ctx, block, cap),
            }
        }
    };
    // bounded-exhaustive over a byte-class alphabet
    ctx.gen = "enum";
    let alpha = [b'a', b':', b' ', b'\t', b'\r', b'\n', 0u8, 0x7f, 0xe1];
    // incl. options of the OTHER message kind (C15: they must have no effect)
    let opt_cfgs: Vec<u8> = if kind == 0 { vec![0, 16, 64, 16 + 64, 2, 1 + 2 + 8 + 32, 64 + 2] } else if kind == 1 { vec![0, 1, 2, 16, 32, 1 + 2, 2 + 32, 1 + 2 + 16 + 32, 4 + 64] } else { vec![0] };
    enumerate(&alpha, 5 + deep(), b"", b"", &mut |b| { run(ctx, b, &opt_cfgs, &[1]); !ctx.full() });
    for prefix in [&b"a:"[..], b"a: b", b"a:b\r\n", b"a: b\r\n ", b"a :", b"\x01x\r\n", b" a:b\r\n", b"a:\r\n"] {
        enumerate(&alpha, 4 + deep(), prefix, b"\r\n\r\n", &mut |b| { run(ctx, b, &opt_cfgs, &[0, 1, 2]); !ctx.full() });
        enumerate(&alpha, 3 + deep(), prefix, b"", &mut |b| { run(ctx, b, &opt_cfgs, &[1]); !ctx.full() });
        if ctx.full() { return; }
    }
    // boundary byte pairs at every lane phase, in name and in value
    ctx.gen = "lane-sweep";
    for l in 0..=70usize { for &b1 in BOUNDARY { for &b2 in [b'a', 0x1f, b'~', 0xff, b':', 0x7f, b'\t'].iter() {
        let mut v = b"N: ".to_vec(); v.extend(pad(b'v', l)); v.push(b1); v.push(b2); v.extend(b"z\r\n\r\nBODYBODYBODYBODYBODYBODYBODYBODYBODY");
        run(ctx, &v, &[0], &[2]);
        let mut n = pad(b'n', l); n.push(b1); n.push(b2); n.extend(b":v\r\n\r\n");
        run(ctx, &n, &[0], &[2]);
        if l % 8 == 0 { run(ctx, &v[..v.len() - 36], &opt_cfgs, &[1]); run(ctx, &n, &opt_cfgs, &[1]); }
        if ctx.full() { return; }
    } } }
    // wide (unrolled) vector steps: a forbidden byte / the line end at every offset up to 300 of a value or name, long tail behind it
    ctx.gen = "long-sweep";
    for p in 64..=300usize { for &b1 in LONG_BAD {
        let mut v = b"N: ".to_vec(); v.extend(pad(b'v', p)); v.push(b1); v.extend(pad(b'v', 440 - p)); v.extend(b"\r\n\r\n"); v.extend(pad(b'B', 64));
        run(ctx, &v, &[0], &[2]);
        let mut n = pad(b'n', p); n.push(b1); n.extend(pad(b'n', 440 - p)); n.extend(b":v\r\n\r\n");
        run(ctx, &n, &[0], &[2]);
        if ctx.full() { return; }
    } }
    for vl in 64..=300usize { for eol in [&b"\r\n"[..], b"\n"] {
        let mut v = b"N: ".to_vec(); v.extend(pad(b'v', vl)); v.extend_from_slice(eol); v.extend(b"M: x"); v.extend_from_slice(eol); v.extend_from_slice(eol); v.extend(pad(b'B', 200));
        run(ctx, &v, &[0], &[2]);
    } }
    // unterminated long runs (buffer ends inside a value / name): every length, so that every block phase meets the buffer end
    ctx.gen = "buffer-end";
    for l in 0..=100usize {
        let mut v = b"N: ".to_vec(); v.extend(pad(b'v', l)); run(ctx, &v, &[0], &[1]);
        let mut n = pad(b'n', l); run(ctx, &n, &[0], &[1]); n.push(b':'); run(ctx, &n, &[0], &[1]);
        let mut w = b"N: ".to_vec(); w.extend(pad(b'v', l)); w.extend(b"\r"); run(ctx, &w, &[0], &[1]);
    }
    // value endings: every boundary byte as the last value byte, with optional trailing OWS
    ctx.gen = "value-end";
    for &b1 in BOUNDARY { for tail in [&b""[..], b" ", b"\t ", b" \t"] { for pre in [&b"v"[..], b"", b"caf\xc3"] {
        let mut v = b"N: ".to_vec(); v.extend_from_slice(pre); v.push(b1); v.extend_from_slice(tail); v.extend(b"\r\nM: x\r\n\r\n");
        run(ctx, &v, &opt_cfgs, &[2]);
    } } }
    // long dropped lines: a NUL / bare CR / LF far behind the offending byte
    ctx.gen = "dropped-line";
    for l in 0..=40usize { for bad in [&b"\0"[..], b"\rX", b"\r", b"\n", b"\r\n"] {
        let mut v = b"Bad Header".to_vec(); v.extend(pad(b'x', l)); v.extend_from_slice(bad); v.extend(b"yyyyyyyyyyyyyyyyyyyy\r\nOk: 1\r\n\r\n");
        run(ctx, &v, &opt_cfgs, &[2]);
        let mut w = b"N: v\x01".to_vec(); w.extend(pad(b'x', l)); w.extend_from_slice(bad); w.extend(b"yyyyyyyyyyyyyyyyyyyy\r\nOk: 1\r\n\r\n");
        run(ctx, &w, &opt_cfgs, &[2]);
    } }
    // capacity law / prefixes / many headers
    ctx.gen = "capacity";
    let many = b"A: 1\r\nBb: 22\r\nC:\r\nD: x \t\r\nE:\t y\r\n\r\nrest";
    for cap in 0..=7usize { for k in 0..=many.len() { run(ctx, &many[..k], &opt_cfgs, &[cap]); } }
    ctx.gen = "enum";
    for block in [&b"Folded: a\r\n b\r\n\tc \r\n\r\n"[..], b"X:\r\n \r\n\r\n", b"X: \r\n y\r\nZ: 1\r\n\r\n", b"Bad Header\rX: 1\r\nOk: 1\r\n\r\n", b"Bad\0Header: 1\r\nOk: 1\r\n\r\n",
                  b" : hello\r\n\r\n", b" \t Name: v\r\n\r\n", b"Name : v\r\n\r\n", b"Name\t:v\r\n\r\n", b": v\r\n\r\n", b"NoColon\r\nOk: 1\r\n\r\n", b"A: b\r\n\r\n", b"A: b\n\n", b"A: b\r\r\n\r\n"] {
        let all: Vec<u8> = (0..128u8).collect();
        for cap in [0usize, 1, 3] { for k in 0..=block.len() { run(ctx, &block[..k], if kind == 2 { &[0] } else { &all }, &[cap]); } }
        if ctx.full() { return; }
    }
}

/// C18, two earlier calls: first a message in its own allocation, then a PREFIX of the probe at the probe's own address (the
/// documented loop "parse, read more into the same buffer, parse again"), then the probe; compared with a fresh value.
/// Recorded for replay as history = the first message, history_cfg = the prefix length, history_uninit = 2.
fn check_history_multi(ctx: &mut Ctx, resp: bool, m1: &[u8], probe: &[u8], k: usize, cfgb: u8, cap: usize) {
    ctx.evals += 1;
    let arena = with_tail(probe);
    let probe = &arena[..probe.len()];
    let k = k.min(probe.len());
    set_cur(if resp { "response" } else { "request" }, cfgb, cap, probe);
    let mut arr1 = vec![httparse::Header { name: SENT_NAME, value: SENT_VAL }; cap];
    let mut arr2 = vec![httparse::Header { name: SENT_NAME, value: SENT_VAL }; cap];
    let pb = mkcfg(Cfg::from_bits(cfgb));
    let (r1, r2, same_fields, desc_used, desc_fresh);
    if resp {
        let mut used = httparse::Response::new(&mut arr1[..]);
        let _ = pb.parse_response(&mut used, m1);
        let _ = pb.parse_response(&mut used, &probe[..k]);
        let cap_now = used.headers.len();
        r1 = pb.parse_response(&mut used, probe);
        let mut fresh = httparse::Response::new(&mut arr2[..cap_now]);
        r2 = pb.parse_response(&mut fresh, probe);
        let complete = matches!(r2, Ok(httparse::Status::Complete(_)));
        same_fields = !complete || (used.version == fresh.version && used.code == fresh.code && used.reason == fresh.reason && used.headers.len() == fresh.headers.len()
            && used.headers.iter().zip(fresh.headers.iter()).all(|(x, y)| x.name == y.name && x.value == y.value));
        desc_used = format!("version={:?} code={:?} reason={:?} nheaders={}", used.version, used.code, sh(used.reason), used.headers.len());
        desc_fresh = format!("version={:?} code={:?} reason={:?} nheaders={}", fresh.version, fresh.code, sh(fresh.reason), fresh.headers.len());
    } else {
        let mut used = httparse::Request::new(&mut arr1[..]);
        let _ = pb.parse_request(&mut used, m1);
        let _ = pb.parse_request(&mut used, &probe[..k]);
        let cap_now = used.headers.len();
        r1 = pb.parse_request(&mut used, probe);
        let mut fresh = httparse::Request::new(&mut arr2[..cap_now]);
        r2 = pb.parse_request(&mut fresh, probe);
        let complete = matches!(r2, Ok(httparse::Status::Complete(_)));
        same_fields = !complete || (used.method == fresh.method && used.path == fresh.path && used.version == fresh.version && used.headers.len() == fresh.headers.len()
            && used.headers.iter().zip(fresh.headers.iter()).all(|(x, y)| x.name == y.name && x.value == y.value));
        desc_used = format!("method={:?} path={:?} version={:?} nheaders={}", sh(used.method), sh(used.path), used.version, used.headers.len());
        desc_fresh = format!("method={:?} path={:?} version={:?} nheaders={}", sh(fresh.method), sh(fresh.path), fresh.version, fresh.headers.len());
    }
    if outcome_of(r1) != outcome_of(r2) || !same_fields {
        unsafe { HIST = Some((m1.to_vec(), k as u8, 2)); }
        ctx.add(Finding { stage: "any", gen: "", family: if resp { "response" } else { "request" }, oracle: "history".into(),
            entry: "ParserConfig::parse_* (value reused twice: another message, then a prefix of this buffer at the same address)".into(), cfg: cfgb, cap,
            input: probe.to_vec(), real: format!("after parsing {:?} and then the first {} bytes of this buffer: {:?} {}", String::from_utf8_lossy(m1), k, r1, desc_used),
            expected: format!("fresh value: {:?} {}", r2, desc_fresh) });
    }
}
/// C18: a Request/Response value that has been through earlier calls must behave like a fresh one
fn check_history_req(ctx: &mut Ctx, a: &[u8], cfga: u8, b: &[u8], cfgb: u8, cap: usize) {
    ctx.evals += 1;
    set_cur("request", cfgb, cap, b);
    let mut arr1 = vec![httparse::Header { name: SENT_NAME, value: SENT_VAL }; cap];
    let mut arr2 = vec![httparse::Header { name: SENT_NAME, value: SENT_VAL }; cap];
    let (pa, pb) = (mkcfg(Cfg::from_bits(cfga)), mkcfg(Cfg::from_bits(cfgb)));
    let mut used = httparse::Request::new(&mut arr1[..]);
    let _ = pa.parse_request(&mut used, a);
    let cap_now = used.headers.len();
    let r1 = pb.parse_request(&mut used, b);
    let mut fresh = httparse::Request::new(&mut arr2[..cap_now]);
    let r2 = pb.parse_request(&mut fresh, b);
    let same_status = outcome_of(r1) == outcome_of(r2);
    let complete = matches!(r2, Ok(httparse::Status::Complete(_)));
    let same_fields = !complete || (used.method == fresh.method && used.path == fresh.path && used.version == fresh.version
        && used.headers.len() == fresh.headers.len() && used.headers.iter().zip(fresh.headers.iter()).all(|(x, y)| x.name == y.name && x.value == y.value));
    if !same_status || !same_fields {
        unsafe { HIST = Some((a.to_vec(), cfga, 0)); }
        ctx.add(Finding { stage: "any", gen: "", family: "request", oracle: "history".into(), entry: "ParserConfig::parse_request (reused value)".into(), cfg: cfgb, cap,
            input: b.to_vec(), real: format!("after an earlier parse of {:?} (cfg {}): {:?} method={:?} path={:?} version={:?} nheaders={}", String::from_utf8_lossy(a), cfga, r1, sh(used.method), sh(used.path), used.version, used.headers.len()),
            expected: format!("fresh value: {:?} method={:?} path={:?} version={:?} nheaders={}", r2, sh(fresh.method), sh(fresh.path), fresh.version, fresh.headers.len()) });
    }
}
fn check_history_resp(ctx: &mut Ctx, a: &[u8], cfga: u8, b: &[u8], cfgb: u8, cap: usize) {
    ctx.evals += 1;
    set_cur("response", cfgb, cap, b);
    let mut arr1 = vec![httparse::Header { name: SENT_NAME, value: SENT_VAL }; cap];
    let mut arr2 = vec![httparse::Header { name: SENT_NAME, value: SENT_VAL }; cap];
    let (pa, pb) = (mkcfg(Cfg::from_bits(cfga)), mkcfg(Cfg::from_bits(cfgb)));
    let mut used = httparse::Response::new(&mut arr1[..]);
    let _ = pa.parse_response(&mut used, a);
    let cap_now = used.headers.len();
    let r1 = pb.parse_response(&mut used, b);
    let mut fresh = httparse::Response::new(&mut arr2[..cap_now]);
    let r2 = pb.parse_response(&mut fresh, b);
    let same_status = outcome_of(r1) == outcome_of(r2);
    let complete = matches!(r2, Ok(httparse::Status::Complete(_)));
    let same_fields = !complete || (used.version == fresh.version && used.code == fresh.code && used.reason == fresh.reason
        && used.headers.len() == fresh.headers.len() && used.headers.iter().zip(fresh.headers.iter()).all(|(x, y)| x.name == y.name && x.value == y.value));
    if !same_status || !same_fields {
        unsafe { HIST = Some((a.to_vec(), cfga, 0)); }
        ctx.add(Finding { stage: "any", gen: "", family: "response", oracle: "history".into(), entry: "ParserConfig::parse_response (reused value)".into(), cfg: cfgb, cap,
            input: b.to_vec(), real: format!("after an earlier parse of {:?} (cfg {}): {:?} version={:?} code={:?} reason={:?} nheaders={}", String::from_utf8_lossy(a), cfga, r1, used.version, used.code, sh(used.reason), used.headers.len()),
            expected: format!("fresh value: {:?} version={:?} code={:?} reason={:?} nheaders={}", r2, fresh.version, fresh.code, sh(fresh.reason), fresh.headers.len()) });
    }
}
/// C18 through the *_with_uninit_headers entry points: the earlier parse leaves `headers` pointing into its own array
/// C16 on a REUSED value: the entry points that take an initialised array and the *_with_uninit_headers ones must agree on status and
/// on every start-line field (also after Partial / Err, where a reused value keeps fields of the earlier call) for the same two calls.
/// Recorded for replay like a one-step history (history_uninit = 3).
fn check_history_cross(ctx: &mut Ctx, a: &[u8], cfga: u8, b: &[u8], cfgb: u8, cap: usize, resp: bool) {
    ctx.evals += 1;
    set_cur(if resp { "response" } else { "request" }, cfgb, cap, b);
    let (pa, pb) = (mkcfg(Cfg::from_bits(cfga)), mkcfg(Cfg::from_bits(cfgb)));
    let mut arr = vec![httparse::Header { name: SENT_NAME, value: SENT_VAL }; cap];
    let mut u1: Vec<MaybeUninit<httparse::Header>> = (0..cap).map(|_| MaybeUninit::uninit()).collect();
    let mut u2: Vec<MaybeUninit<httparse::Header>> = (0..cap).map(|_| MaybeUninit::uninit()).collect();
    let mut e1: [httparse::Header; 0] = [];
    let (real, expected, differ);
    if !resp {
        let mut x = httparse::Request::new(&mut arr[..]);
        let _ = pa.parse_request(&mut x, a);
        let cap_now = x.headers.len();       // a Complete first call leaves the array shrunk to its headers: same capacity for both
        let r1 = pb.parse_request(&mut x, b);
        let mut y = httparse::Request::new(&mut e1);
        let _ = pa.parse_request_with_uninit_headers(&mut y, a, &mut u1);
        let r2 = pb.parse_request_with_uninit_headers(&mut y, b, &mut u2[..cap_now]);
        differ = outcome_of(r1) != outcome_of(r2) || x.method != y.method || x.path != y.path || x.version != y.version;
        real = format!("parse_request after {:?}: {:?} method={:?} path={:?} version={:?}", String::from_utf8_lossy(a), r1, sh(x.method), sh(x.path), x.version);
        expected = format!("parse_request_with_uninit_headers after the same call: {:?} method={:?} path={:?} version={:?}", r2, sh(y.method), sh(y.path), y.version);
    } else {
        let mut x = httparse::Response::new(&mut arr[..]);
        let _ = pa.parse_response(&mut x, a);
        let cap_now = x.headers.len();
        let r1 = pb.parse_response(&mut x, b);
        let mut y = httparse::Response::new(&mut e1);
        let _ = pa.parse_response_with_uninit_headers(&mut y, a, &mut u1);
        let r2 = pb.parse_response_with_uninit_headers(&mut y, b, &mut u2[..cap_now]);
        differ = outcome_of(r1) != outcome_of(r2) || x.version != y.version || x.code != y.code || x.reason != y.reason;
        real = format!("parse_response after {:?}: {:?} version={:?} code={:?} reason={:?}", String::from_utf8_lossy(a), r1, x.version, x.code, sh(x.reason));
        expected = format!("parse_response_with_uninit_headers after the same call: {:?} version={:?} code={:?} reason={:?}", r2, y.version, y.code, sh(y.reason));
    }
    if differ {
        unsafe { HIST = Some((a.to_vec(), cfga, 3)); }
        ctx.add(Finding { stage: "any", gen: "", family: if resp { "response" } else { "request" }, oracle: "history".into(),
            entry: "entry points compared on a reused value".into(), cfg: cfgb, cap, input: b.to_vec(), real, expected });
    }
}
fn check_history_uninit(ctx: &mut Ctx, a: &[u8], cfga: u8, b: &[u8], cfgb: u8, cap: usize, resp: bool) {
    ctx.evals += 1;
    set_cur(if resp { "response" } else { "request" }, cfgb, cap, b);
    let (pa, pb) = (mkcfg(Cfg::from_bits(cfga)), mkcfg(Cfg::from_bits(cfgb)));
    let mut u1: Vec<MaybeUninit<httparse::Header>> = (0..cap).map(|_| MaybeUninit::uninit()).collect();
    let mut u2: Vec<MaybeUninit<httparse::Header>> = (0..cap).map(|_| MaybeUninit::uninit()).collect();
    let mut u3: Vec<MaybeUninit<httparse::Header>> = (0..cap).map(|_| MaybeUninit::uninit()).collect();
    let (mut e1, mut e2): ([httparse::Header; 0], [httparse::Header; 0]) = ([], []);
    let (real, expected, differ);
    if !resp {
        let mut used = httparse::Request::new(&mut e1);
        let _ = pa.parse_request_with_uninit_headers(&mut used, a, &mut u1);
        let r1 = pb.parse_request_with_uninit_headers(&mut used, b, &mut u2);
        let mut fresh = httparse::Request::new(&mut e2);
        let r2 = pb.parse_request_with_uninit_headers(&mut fresh, b, &mut u3);
        let complete = matches!(r2, Ok(httparse::Status::Complete(_)));
        differ = outcome_of(r1) != outcome_of(r2) || (complete && !(used.method == fresh.method && used.path == fresh.path && used.version == fresh.version
            && used.headers.len() == fresh.headers.len() && used.headers.iter().zip(fresh.headers.iter()).all(|(x, y)| x.name == y.name && x.value == y.value)));
        real = format!("after an earlier parse of {:?} (cfg {}): {:?} method={:?} path={:?} version={:?} nheaders={}", String::from_utf8_lossy(a), cfga, r1, sh(used.method), sh(used.path), used.version, used.headers.len());
        expected = format!("fresh value: {:?} method={:?} path={:?} version={:?} nheaders={}", r2, sh(fresh.method), sh(fresh.path), fresh.version, fresh.headers.len());
    } else {
        let mut used = httparse::Response::new(&mut e1);
        let _ = pa.parse_response_with_uninit_headers(&mut used, a, &mut u1);
        let r1 = pb.parse_response_with_uninit_headers(&mut used, b, &mut u2);
        let mut fresh = httparse::Response::new(&mut e2);
        let r2 = pb.parse_response_with_uninit_headers(&mut fresh, b, &mut u3);
        let complete = matches!(r2, Ok(httparse::Status::Complete(_)));
        differ = outcome_of(r1) != outcome_of(r2) || (complete && !(used.version == fresh.version && used.code == fresh.code && used.reason == fresh.reason
            && used.headers.len() == fresh.headers.len() && used.headers.iter().zip(fresh.headers.iter()).all(|(x, y)| x.name == y.name && x.value == y.value)));
        real = format!("after an earlier parse of {:?} (cfg {}): {:?} version={:?} code={:?} reason={:?} nheaders={}", String::from_utf8_lossy(a), cfga, r1, used.version, used.code, sh(used.reason), used.headers.len());
        expected = format!("fresh value: {:?} version={:?} code={:?} reason={:?} nheaders={}", r2, fresh.version, fresh.code, sh(fresh.reason), fresh.headers.len());
    }
    if differ {
        unsafe { HIST = Some((a.to_vec(), cfga, 1)); }
        ctx.add(Finding { stage: "any", gen: "", family: if resp { "response" } else { "request" }, oracle: "history".into(),
            entry: (if resp { "ParserConfig::parse_response_with_uninit_headers (reused value)" } else { "ParserConfig::parse_request_with_uninit_headers (reused value)" }).into(), cfg: cfgb, cap,
            input: b.to_vec(), real, expected });
    }
}
fn search_history(ctx: &mut Ctx) {
    ctx.gen = "history";
    let reqs: Vec<&[u8]> = vec![b"", b"GET", b"GET /a", b"GET /abc HTTP/1.1\r\n", b"GET /abc HTTP/1.1\r\nHost: x\r\n\r\n", b"POST  /p  HTTP/1.0\r\nA: 1\r\nB: 2\r\n\r\n",
        b"GET / HTTP/1.1\r\nBad Header\r\n\r\n", b"G\x01T / HTTP/1.1\r\n\r\n", b"GET / HTTP/1.1\r\nA: 1\r\nB: 2\r\nC: 3\r\n\r\n", b"PUT /x HTTP/1.1\r\nA:",
        b"XGET /abc HTTP/1.1\r\nHost: x\r\n\r\n", b"\r\nGET / HTTP/1.1\n\n", b"GET /\xff HTTP/1.1\r\n\r\n"];
    let resps: Vec<&[u8]> = vec![b"", b"HTTP/1.1", b"HTTP/1.1 404 Not Found\r\n", b"HTTP/1.1 404 Not Found\r\nA: 1\r\n\r\n", b"HTTP/1.1 200\r\n\r\n", b"HTTP/1.0 204\n\n",
        b"HTTP/1.1 500 Internal Server Error\r\nX", b"HTTP/1.1 2x0 OK\r\n", b"HTTP/1.1 200 OK\r\nSer ver: x\r\n", b"HTTP/1.1 200 OK\r\nA: 1\r\nB: 2\r\n\r\n", b"HTTP/1.1 200 Caf\xc3\xa9\r\n\r\n",
        b"HTTP/2.0 200 OK\r\n\r\n", b"HTTP/1.1  200  OK\r\n\r\n"];
    for cap in [0usize, 1, 4] { for &ca in &[0u8, 4, 8, 127] { for &cb in &[0u8, 4, 8, 127] {
        for a in &reqs { for b in &reqs { check_history_req(ctx, a, ca, b, cb, cap); } }
        for a in &resps { for b in &resps { check_history_resp(ctx, a, ca, b, cb, cap); } }
        if ca == cb || ca == 0 {
            for a in &reqs { for b in &reqs { check_history_uninit(ctx, a, ca, b, cb, cap, false); check_history_cross(ctx, a, ca, b, cb, cap, false); for k in [1usize, 2, 5, 9] { if k < b.len() { check_history_cross(ctx, a, ca, &b[..k], cb, cap, false); } } } }
            for a in &resps { for b in &resps { check_history_uninit(ctx, a, ca, b, cb, cap, true); check_history_cross(ctx, a, ca, b, cb, cap, true); for k in [1usize, 7, 10, 13] { if k < b.len() { check_history_cross(ctx, a, ca, &b[..k], cb, cap, true); } } } }
        }
    } } }
    // probes derived from the history itself: the same bytes with one byte inserted / replaced at every position (a value that
    // "resumes" from stale fields of the earlier call takes a different path than a fresh one exactly where the two buffers part)
    ctx.gen = "history-derived";
    let edits: [u8; 8] = [b'X', b' ', b'\t', b'/', 0xff, b'\r', b'\n', b'1'];
    let tail: &[u8] = b" /z HTTP/1.1\r\nZ: 9\r\n\r\n";
    for (list, resp) in [(&reqs, false), (&resps, true)] {
        for a in list.iter() { for pos in 0..=a.len() { for &e in &edits { for mode in 0..3u8 {
            let mut b: Vec<u8> = a[..pos].to_vec();
            match mode { 0 => { b.push(e); b.extend_from_slice(&a[pos..]); }                       // insertion
                         1 => { if pos < a.len() { b.push(e); b.extend_from_slice(&a[pos + 1..]); } else { continue; } }   // replacement
                         _ => { b.push(e); b.extend_from_slice(tail); } }                        // cut here, different continuation
            for &(ca, cb) in &[(0u8, 0u8), (127, 0), (0, 127)] {
                if resp { check_history_resp(ctx, a, ca, &b, cb, 2); check_history_uninit(ctx, a, ca, &b, cb, 2, true); }
                else { check_history_req(ctx, a, ca, &b, cb, 2); check_history_uninit(ctx, a, ca, &b, cb, 2, false); }
            }
        } } } }
    }
    // two earlier calls: another message, then every prefix of the probe at the probe's own address
    ctx.gen = "history-grown-buffer";
    let req_probes: Vec<&[u8]> = vec![b"GET /abc HTTP/1.0\r\nHost: x\r\n\r\n", b"GET /abc HTTP/1.7\r\n\r\n", b"GET /abc HTTP/2.0\r\n\r\n", b"POST /p HTTP/1.1\r\nA: 1\r\n\r\n",
        b"GET /ab\xff HTTP/1.1\r\n\r\n", b"GETX /abc HTTP/1.1\r\n\r\n", b"GET  /abc  HTTP/1.0\r\n\r\n", b"\r\nGET /abc HTTP/1.0\n\n"];
    let resp_probes: Vec<&[u8]> = vec![b"HTTP/1.0 404 Pas trouv\xe9\r\n\r\n", b"HTTP/1.1 200\r\n\r\n", b"HTTP/1.1 204 \r\nA: 1\r\n\r\n", b"HTTP/1.7 200 OK\r\n\r\n",
        b"HTTP/1.0 2x0 OK\r\n\r\n", b"HTTP/1.0 500 \xff\n\n", b"HTTP/1.0  301  Moved\r\n\r\n"];
    for m1 in &reqs { for p in &req_probes { for k in 0..=p.len() { for &c in &[0u8, 4] { check_history_multi(ctx, false, m1, p, k, c, 2); } } } }
    for m1 in &resps { for p in &resp_probes { for k in 0..=p.len() { for &c in &[0u8, 8] { check_history_multi(ctx, true, m1, p, k, c, 2); } } } }
    ctx.gen = "history";
    // overlapping sub-slices of ONE allocation (stale pointers of an earlier parse lie inside the next buffer)
    for big in &reqs { for i in 0..2usize { for k in 0..2usize { for j in (i..=big.len()).step_by(3) { for l in [big.len()] {
        if i <= j && k <= l { check_history_req(ctx, &big[i..j], 0, &big[k..l], 0, 4); }
    } } } } }
    for big in &resps { for i in 0..2usize { for k in 0..2usize { for j in (i..=big.len()).step_by(3) { for l in [big.len()] {
        if i <= j && k <= l { check_history_resp(ctx, &big[i..j], 0, &big[k..l], 0, 4); }
    } } } } }
}

/// C20 (bounded stand-in for the paper step "work <= c * len"): time the real parser on adversarial families at 4 KiB and
/// 64 KiB; linear work gives a ratio of about 16, quadratic work about 256.  Reported when the ratio exceeds 80 in the best
/// of several repetitions (and the large run is long enough to be measurable).
static mut CUR_FAMILY: &str = "";
fn time_parse(kind: u8, cfgb: u8, buf: &[u8]) -> f64 {
    TICK.fetch_add(1, Ordering::Relaxed);
    let pc = mkcfg(Cfg::from_bits(cfgb));
    let mut best = f64::MAX;
    // capacity large enough that a 64 KiB run of minimal header lines is parsed to its end (allocated outside the timed region)
    let mut h = vec![httparse::EMPTY_HEADER; 40000];
    for _ in 0..5 {
        for x in h.iter_mut() { *x = httparse::EMPTY_HEADER; }
        let t0;
        match kind {
            0 => { let mut r = httparse::Request::new(&mut h); t0 = std::time::Instant::now(); let _ = std::hint::black_box(pc.parse_request(&mut r, buf)); best = best.min(t0.elapsed().as_secs_f64()); }
            1 => { let mut r = httparse::Response::new(&mut h); t0 = std::time::Instant::now(); let _ = std::hint::black_box(pc.parse_response(&mut r, buf)); best = best.min(t0.elapsed().as_secs_f64()); }
            2 => { t0 = std::time::Instant::now(); let _ = std::hint::black_box(httparse::parse_headers(buf, &mut h)); best = best.min(t0.elapsed().as_secs_f64()); }
            _ => { t0 = std::time::Instant::now(); let _ = std::hint::black_box(httparse::parse_chunk_size(buf)); best = best.min(t0.elapsed().as_secs_f64()); }
        }
    }
    best
}
fn family(name: &str, n: usize) -> (u8, u8, Vec<u8>) {
    let rep = |unit: &[u8], n: usize| -> Vec<u8> { let mut v = Vec::with_capacity(n + unit.len()); while v.len() < n { v.extend_from_slice(unit); } v };
    let mut b: Vec<u8>;
    match name {
        "folded-blank-lines" => { b = b"HTTP/1.1 200 OK\r\nX: a\r\n".to_vec(); b.extend(rep(b" \r\n", n)); (1, 2, b) }
        "folded-lines" => { b = b"HTTP/1.1 200 OK\r\nX: a\r\n".to_vec(); b.extend(rep(b" bb\r\n", n)); (1, 2, b) }
        "ignored-lines-req" => { b = b"GET / HTTP/1.1\r\n".to_vec(); b.extend(rep(b"@\n", n)); (0, 64, b) }
        "ignored-ctl-value-req" => { b = b"GET / HTTP/1.1\r\n".to_vec(); b.extend(rep(b"a: b\x01c\r\n", n)); (0, 64, b) }
        "ignored-ctl-value-resp" => { b = b"HTTP/1.1 200 OK\r\n".to_vec(); b.extend(rep(b"a: b\x7fc\n", n)); (1, 32, b) }
        "ignored-long-line" => { b = b"HTTP/1.1 200 OK\r\nBad Header".to_vec(); b.extend(rep(b"x y\tz", n)); (1, 32, b) }
        "ignored-lines-resp" => { b = b"HTTP/1.1 200 OK\r\n".to_vec(); b.extend(rep(b"b d\r\n", n)); (1, 32, b) }
        "ws-after-colon" => { b = b"GET / HTTP/1.1\r\nX:".to_vec(); b.extend(rep(b" \t", n)); (0, 0, b) }
        "ws-after-colon-fold" => { b = b"HTTP/1.1 200 OK\r\nX:".to_vec(); b.extend(rep(b" \r\n", n)); (1, 2, b) }
        "ws-before-first" => { b = b"GET / HTTP/1.1\r\n".to_vec(); b.extend(rep(b" \t", n)); (0, 16, b) }
        "long-value" => { b = b"GET / HTTP/1.1\r\nX: ".to_vec(); b.extend(rep(b"v\tv ", n)); (0, 0, b) }
        "long-value-trailing-ws" => { b = b"GET / HTTP/1.1\r\nX: v".to_vec(); b.extend(rep(b" ", n)); b.extend(b"\r\n\r\n"); (0, 0, b) }
        "long-name" => { b = b"GET / HTTP/1.1\r\n".to_vec(); b.extend(rep(b"n", n)); (0, 0, b) }
        "long-target" => { b = b"GET /".to_vec(); b.extend(rep(b"a\xc3\xa9", n)); (0, 0, b) }
        "many-headers" => { b = b"GET / HTTP/1.1\r\n".to_vec(); b.extend(rep(b"A: b\r\n", n)); (0, 0, b) }
        "many-headers-spaces" => { b = b"HTTP/1.1 200 OK\r\n".to_vec(); b.extend(rep(b"A \t: b\r\n", n)); (1, 1, b) }
        "empty-lines" => { b = rep(b"\r\n", n); (0, 0, b) }
        "reason" => { b = b"HTTP/1.1 200 ".to_vec(); b.extend(rep(b"r \xa9", n)); (1, 8, b) }
        "status-spaces" => { b = b"HTTP/1.1 ".to_vec(); b.extend(rep(b" ", n)); (1, 8, b) }
        "request-spaces" => { b = b"GET ".to_vec(); b.extend(rep(b" ", n)); (0, 4, b) }
        "headers-only" => { b = rep(b"Name: value value\r\n", n); (2, 0, b) }
        "chunk-ext-semis" => { b = b"1f;".to_vec(); b.extend(rep(b";", n)); (3, 0, b) }
        "chunk-ext-plain" => { b = b"1;".to_vec(); b.extend(rep(b"a=b", n)); (3, 0, b) }
        "chunk-ws" => { b = b"1".to_vec(); b.extend(rep(b" \t", n)); (3, 0, b) }
        "name-trailing-ws" => { b = b"HTTP/1.1 200 OK\r\nName".to_vec(); b.extend(rep(b" \t", n)); (1, 1, b) }
        "empty-values" => { b = b"GET / HTTP/1.1\r\n".to_vec(); b.extend(rep(b"A:\r\n", n)); (0, 0, b) }
        "lf-only-headers" => { b = b"GET / HTTP/1.1\n".to_vec(); b.extend(rep(b"A: b\n", n)); (0, 0, b) }
        _ => { b = b"1;".to_vec(); b.extend(rep(b"ext\n", n)); (3, 0, b) }
    }
}
fn search_timing() -> Vec<String> {
    let mut out = vec![];
    for name in ["folded-blank-lines", "folded-lines", "ignored-lines-req", "ignored-lines-resp", "ignored-ctl-value-req", "ignored-ctl-value-resp", "ignored-long-line", "ws-after-colon", "ws-after-colon-fold", "ws-before-first",
                 "long-value", "long-value-trailing-ws", "long-name", "long-target", "many-headers", "many-headers-spaces", "empty-lines", "reason",
                 "status-spaces", "request-spaces", "headers-only", "chunk-ext", "chunk-ext-semis", "chunk-ext-plain", "chunk-ws", "name-trailing-ws", "empty-values", "lf-only-headers"] {
        // each family as is (buffer ends inside the run) and followed by a closing suffix (the run is followed by real content)
        let mut worst = 0.0f64;
        let mut t_big = 0.0;
        for suffix in [&b""[..], b"v\r\n\r\n"] {
            let mut best = f64::MAX;
            let mut tb_best = 0.0;
            for _ in 0..3 {
                unsafe { CUR_FAMILY = name; }
                let (k, c, mut small) = family(name, 4096);
                let (_, _, mut big) = family(name, 65536);
                small.extend_from_slice(suffix); big.extend_from_slice(suffix);
                let ts = time_parse(k, c, &small).max(1e-7);
                let tb = time_parse(k, c, &big);
                if tb / ts < best { best = tb / ts; tb_best = tb; }
            }
            if best > worst { worst = best; t_big = tb_best; }
        }
        eprintln!("timing family={} ratio={:.1} t64k={:.6}s", name, worst, t_big);
        if worst > 80.0 && t_big > 0.005 {
            out.push(format!("{{\"stage\":\"any\",\"gen\":\"timing\",\"family\":\"timing\",\"oracle\":\"linear-work\",\"entry\":\"{}\",\"cfg\":0,\"cap\":8,\"input_hex\":\"\",\"input\":\"family {} at 4 KiB vs 64 KiB\",\"real\":\"time ratio {:.1} (64 KiB run {:.4} s)\",\"expected\":\"about 16 (linear); reported above 80\"}}", name, name, worst, t_big));
        }
    }
    out
}

fn main() {
    install_panic_hook();
    let args: Vec<String> = std::env::args().collect();
    if args.len() >= 2 && args[1] == "timing" {
        // a call that does not return within 20 s: the family being timed is reported (work is certainly not linear) and the run ends
        std::thread::spawn(|| {
            let mut last = u64::MAX; let mut same = 0u32;
            loop {
                std::thread::sleep(std::time::Duration::from_secs(1));
                let t = TICK.load(Ordering::Relaxed);
                if t == last && t != 0 { same += 1; } else { same = 0; last = t; }
                if same >= 20 {
                    #[allow(static_mut_refs)]
                    let name = unsafe { CUR_FAMILY };
                    eprintln!("timing family={} ratio=99999.0 t64k=20.000000s", name);
                    println!("{{\"stage\":\"any\",\"gen\":\"timing\",\"family\":\"timing\",\"oracle\":\"linear-work\",\"entry\":\"{}\",\"cfg\":0,\"cap\":8,\"input_hex\":\"\",\"input\":\"family {}\",\"real\":\"one parse call had not returned after 20 s\",\"expected\":\"about 16 (linear); reported above 80\"}}", name, name);
                    std::process::exit(1);
                }
            }
        });
        let f = search_timing();
        for l in &f { println!("{}", l); }
        std::process::exit(if f.is_empty() { 0 } else { 1 });
    }
    if args.len() >= 3 && args[1] == "search" {
        install_watchdog();
        let mut ctx = Ctx { findings: vec![], evals: 0, max: 60, gen: "enum", hist: vec![] };
        let fam = args[2].as_str();
        if fam == "chunk" || fam == "all" { search_chunk(&mut ctx); }
        if fam == "request" || fam == "all" { search_request(&mut ctx); }
        if fam == "response" || fam == "all" { search_response(&mut ctx); }
        if fam == "headers" || fam == "all" { search_header_block(&mut ctx, b"", 2); }
        if fam == "history" || fam == "all" { search_history(&mut ctx); }
        if fam == "sweep" || fam == "all" { search_sweep(&mut ctx); }
        if fam == "guard" { search_guard(&mut ctx); }
        if fam == "dict" || fam == "all" { search_dict(&mut ctx); }
        if fam == "strides" || fam == "all" { search_strides(&mut ctx); }
        if GETTER_BAD.load(Ordering::Relaxed) {
            ctx.max += 1;
            ctx.gen = "config";
            ctx.add(Finding { stage: "any", gen: "", family: "config", oracle: "config-getter".into(), entry: "ParserConfig setters/getters".into(), cfg: 0, cap: 0, input: vec![],
                              real: "after option(!v) followed by option(v) on one ParserConfig value, a *_are_allowed getter does not report v".into(), expected: "each setter sets and clears exactly its own flag".into() });
        }
        let pa = PARSE_ALLOCS.load(Ordering::Relaxed);
        if pa > 0 {
            ctx.max += 1;
            ctx.gen = "alloc-count";
            ctx.add(Finding { stage: "any", gen: "", family: "alloc", oracle: "allocation".into(), entry: "any parse entry point".into(), cfg: 0, cap: 0, input: vec![],
                              real: format!("{} allocator calls inside parse calls over this search", pa), expected: "0".into() });
        }
        ctx.print();
        eprintln!("evaluations={} findings={} parse_allocs={}", ctx.evals, ctx.findings.len(), pa);
        std::process::exit(if ctx.findings.is_empty() { 0 } else { 1 });
    }
    if args.len() >= 6 && args[1] == "replay" {
        let mut ctx = Ctx { findings: vec![], evals: 0, max: 10, gen: "replay", hist: vec![] };
        let cfgb: u8 = args[3].parse().unwrap();
        let cap: usize = args[4].parse().unwrap();
        let buf = unhex(&args[5]);
        if args.len() >= 9 {
            // a history finding: earlier buffer, its config bits, entry-point flavour
            let (hb, hc, hu) = (unhex(&args[6]), args[7].parse::<u8>().unwrap(), args[8].parse::<u8>().unwrap());
            match (args[2].as_str(), hu) {
                ("request", 3) => check_history_cross(&mut ctx, &hb, hc, &buf, cfgb, cap, false),
                ("response", 3) => check_history_cross(&mut ctx, &hb, hc, &buf, cfgb, cap, true),
                ("request", 2) => check_history_multi(&mut ctx, false, &hb, &buf, hc as usize, cfgb, cap),
                ("response", 2) => check_history_multi(&mut ctx, true, &hb, &buf, hc as usize, cfgb, cap),
                ("request", 0) => check_history_req(&mut ctx, &hb, hc, &buf, cfgb, cap),
                ("response", 0) => check_history_resp(&mut ctx, &hb, hc, &buf, cfgb, cap),
                ("request", _) => check_history_uninit(&mut ctx, &hb, hc, &buf, cfgb, cap, false),
                _ => check_history_uninit(&mut ctx, &hb, hc, &buf, cfgb, cap, true),
            }
            for f in &ctx.findings { println!("reused value: {}\nfresh value:  {}", f.real, f.expected); }
            if ctx.findings.is_empty() { println!("reused and fresh value agree"); }
            ctx.print();
            std::process::exit(if ctx.findings.is_empty() { 0 } else { 1 });
        }
        match args[2].as_str() {
            "chunk" => { check_chunk(&mut ctx, &buf); println!("real: {:?}\noracle: {:?}", httparse::parse_chunk_size(&buf), spec_chunk(&buf)); }
            "request" => { check_request(&mut ctx, &buf, cfgb, cap); println!("real: {:?}\noracle: {:?}", real_request(&buf, Cfg::from_bits(cfgb), cap, 0), spec_request(&buf, Cfg::from_bits(cfgb), cap)); }
            "response" => { check_response(&mut ctx, &buf, cfgb, cap); println!("real: {:?}\noracle: {:?}", real_response(&buf, Cfg::from_bits(cfgb), cap, 0), spec_response(&buf, Cfg::from_bits(cfgb), cap)); }
            _ => { check_headers(&mut ctx, &buf, cap); println!("oracle: {:?}", spec_hdrs(&buf, 0, HCfg::default(), cap)); }
        }
        // a recorded stability finding (C02) is a pair buffer / extension on the real crate alone: ask again
        let fam: &'static str = match args[2].as_str() { "chunk" => "chunk", "request" => "request", "response" => "response", _ => "headers" };
        let before = ctx.findings.len();
        stability_probe(&mut ctx, fam, &buf, cfgb, cap);
        for f in &ctx.findings[before..] { println!("stability: {}", f.real); }
        ctx.print();
        std::process::exit(if ctx.findings.is_empty() { 0 } else { 1 });
    }
    #[cfg(all(target_os = "linux", target_arch = "x86_64"))]
    if args.len() >= 5 && args[1] == "guardreplay" {
        // witness guardreplay <kind 0..3> <cfgbits> <hex>: parse the input in place in front of an unmapped page (dies by SIGSEGV on an over-read)
        let arena = guard::Arena::new(4).expect("mmap");
        let d = unhex(&args[4]);
        let b = arena.place(&d);
        let cfgb: u8 = args[3].parse().unwrap();
        match args[2].as_str() {
            "0" => { for e in 0..2u8 { let _ = real_request(b, Cfg::from_bits(cfgb), 3, e); } }
            "1" => { for e in 0..2u8 { let _ = real_response(b, Cfg::from_bits(cfgb), 3, e); } }
            "2" => { let mut arr = vec![httparse::Header { name: SENT_NAME, value: SENT_VAL }; 3]; let _ = httparse::parse_headers(b, &mut arr[..]); }
            _ => { let _ = httparse::parse_chunk_size(b); }
        }
        println!("returned normally: no byte past the end of the buffer was read");
        std::process::exit(0);
    }
    eprintln!("usage: witness search <chunk|request|response|headers|all> | witness replay <family> <cfgbits> <cap> <hex>");
    std::process::exit(2);
}
