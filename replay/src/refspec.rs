//! Executable twin of the oracle in /verif/spec/*.rs (same functions, same structure, same names), used ONLY to
//! (a) search for a concrete failing input after the verifier has rejected / could not decide an obligation, and
//! (b) replay recorded inputs.  It never decides that a property HOLDS.  Correspondence with the Verus `spec fn`s is by
//! construction (line-by-line transcription) and review.
#![allow(dead_code)]

#[derive(Debug, Clone, Copy, PartialEq, Eq)]
pub enum Kind { HeaderName, HeaderValue, NewLine, Status, Token, TooManyHeaders, Version }

#[derive(Debug, Clone, PartialEq, Eq)]
pub enum SRes<T> { Complete(T, usize), Partial, Err(Kind) }

pub fn is_tchar(b: u8) -> bool {
    b.is_ascii_alphanumeric() || matches!(b, b'!' | b'#' | b'$' | b'%' | b'&' | b'\'' | b'*' | b'+' | b'-' | b'.' | b'^' | b'_' | b'`' | b'|' | b'~')
}
pub fn is_uri(b: u8) -> bool { (0x21..=0x7e).contains(&b) || b >= 0x80 }
pub fn is_hval(b: u8) -> bool { b == 9 || (0x20..=0x7e).contains(&b) || b >= 0x80 }
pub fn is_spht(b: u8) -> bool { b == 0x20 || b == 9 }
pub fn is_digit(b: u8) -> bool { b.is_ascii_digit() }
pub fn is_reason(b: u8) -> bool { b == 9 || b == 0x20 || (0x21..=0x7e).contains(&b) || b >= 0x80 }
pub fn is_hex(b: u8) -> bool { b.is_ascii_hexdigit() }
pub fn is_ows(b: u8) -> bool { b == 0x20 || b == 9 || b == 0x0d || b == 0x0a }

pub fn first_not(cls: fn(u8) -> bool, s: &[u8], i: usize) -> usize {
    let mut j = i;
    while j < s.len() && cls(s[j]) { j += 1; }
    j.max(i.min(s.len()))
}

// ------------------------------------------------------------------------------------------------ start line
pub fn spec_empty_lines(s: &[u8], mut i: usize) -> SRes<()> {
    loop {
        if i >= s.len() { return SRes::Partial; }
        if s[i] == 0x0d {
            if i + 1 >= s.len() { return SRes::Partial; }
            if s[i + 1] == 0x0a { i += 2; } else { return SRes::Err(Kind::NewLine); }
        } else if s[i] == 0x0a { i += 1; } else { return SRes::Complete((), i); }
    }
}
pub fn spec_spaces(s: &[u8], i: usize) -> SRes<()> {
    let j = first_not(|b| b == 0x20, s, i);
    if j >= s.len() { SRes::Partial } else { SRes::Complete((), j) }
}
pub fn spec_token(s: &[u8], i: usize) -> SRes<(usize, usize)> {
    let j = first_not(is_tchar, s, i);
    if j >= s.len() { SRes::Partial } else if j > i && s[j] == 0x20 { SRes::Complete((i, j), j + 1) } else { SRes::Err(Kind::Token) }
}
pub fn spec_uri(s: &[u8], i: usize) -> SRes<(usize, usize)> {
    let j = first_not(is_uri, s, i);
    if j >= s.len() { SRes::Partial }
    else if j > i && s[j] == 0x20 && core::str::from_utf8(&s[i..j]).is_ok() { SRes::Complete((i, j), j + 1) }
    else { SRes::Err(Kind::Token) }
}
const HTTP1: &[u8; 7] = b"HTTP/1.";
pub fn agrees_lit(s: &[u8], i: usize, n: usize) -> bool { (0..n).all(|k| s[i + k] == HTTP1[k]) }
pub fn spec_version(s: &[u8], i: usize) -> SRes<u8> {
    let avail = s.len() - i;
    if avail >= 8 {
        if agrees_lit(s, i, 7) && s[i + 7] == b'0' { SRes::Complete(0, i + 8) }
        else if agrees_lit(s, i, 7) && s[i + 7] == b'1' { SRes::Complete(1, i + 8) }
        else { SRes::Err(Kind::Version) }
    } else if agrees_lit(s, i, avail.min(7)) { SRes::Partial } else { SRes::Err(Kind::Version) }
}
pub fn spec_eol(s: &[u8], i: usize, e: Kind) -> SRes<()> {
    if i >= s.len() { SRes::Partial }
    else if s[i] == 0x0d {
        if i + 1 >= s.len() { SRes::Partial } else if s[i + 1] == 0x0a { SRes::Complete((), i + 2) } else { SRes::Err(e) }
    } else if s[i] == 0x0a { SRes::Complete((), i + 1) } else { SRes::Err(e) }
}
pub fn spec_code(s: &[u8], i: usize) -> SRes<u16> {
    for k in 0..3 {
        if i + k >= s.len() { return SRes::Partial; }
        if !is_digit(s[i + k]) { return SRes::Err(Kind::Status); }
    }
    SRes::Complete((s[i] - b'0') as u16 * 100 + (s[i + 1] - b'0') as u16 * 10 + (s[i + 2] - b'0') as u16, i + 3)
}
pub fn spec_reason(s: &[u8], i: usize) -> SRes<(usize, usize, bool)> {
    let j = first_not(is_reason, s, i);
    match spec_eol(s, j, Kind::Status) {
        SRes::Complete(_, c) => SRes::Complete((i, j, s[i..j].iter().any(|b| *b >= 0x80)), c),
        SRes::Partial => SRes::Partial,
        SRes::Err(e) => SRes::Err(e),
    }
}

// ------------------------------------------------------------------------------------------------ header block
#[derive(Debug, Clone, Copy, PartialEq, Eq, Default)]
pub struct HCfg { pub sp_after_name: bool, pub fold: bool, pub sp_before_first: bool, pub ignore: bool }
#[derive(Debug, Clone, Copy, PartialEq, Eq)]
pub struct SHdr { pub name_lo: usize, pub name_hi: usize, pub val_lo: usize, pub val_hi: usize }
#[derive(Debug, Clone, PartialEq, Eq)]
pub enum LineRes { End(usize), Header(SHdr, usize), Skip(usize), Partial, Err(Kind) }

pub fn spec_skip(s: &[u8], mut q: usize, e: Kind) -> LineRes {
    loop {
        if q >= s.len() { return LineRes::Partial; }
        if s[q] == 0x0d {
            return if q + 1 >= s.len() { LineRes::Partial } else if s[q + 1] == 0x0a { LineRes::Skip(q + 2) } else { LineRes::Err(e) };
        }
        if s[q] == 0x0a { return LineRes::Skip(q + 1); }
        if s[q] == 0 { return LineRes::Err(e); }
        q += 1;
    }
}
pub fn spec_invalid(s: &[u8], q: usize, e: Kind, cfg: HCfg) -> LineRes { if !cfg.ignore { LineRes::Err(e) } else { spec_skip(s, q, e) } }
pub fn trim_end(s: &[u8], lo: usize, mut hi: usize) -> usize {
    while hi > lo && is_ows(s[hi - 1]) { hi -= 1; }
    hi.max(lo)
}
pub fn spec_vlines(s: &[u8], nlo: usize, nhi: usize, v0: usize, mut from: usize, cfg: HCfg) -> LineRes {
    loop {
        let e = first_not(is_hval, s, from);
        if e >= s.len() { return LineRes::Partial; }
        let n = if s[e] == 0x0a { e + 1 } else { e + 2 };
        if s[e] == 0x0d && e + 1 >= s.len() { return LineRes::Partial; }
        if s[e] == 0x0d && s[e + 1] != 0x0a { return LineRes::Err(Kind::HeaderValue); }
        if s[e] != 0x0d && s[e] != 0x0a { return spec_invalid(s, e, Kind::HeaderValue, cfg); }
        if cfg.fold && n >= s.len() { return LineRes::Partial; }
        if cfg.fold && is_spht(s[n]) { from = n; continue; }
        return LineRes::Header(SHdr { name_lo: nlo, name_hi: nhi, val_lo: v0, val_hi: trim_end(s, v0, e) }, n);
    }
}
pub fn spec_ws(s: &[u8], nlo: usize, nhi: usize, mut c: usize, cfg: HCfg) -> LineRes {
    loop {
        if c >= s.len() { return LineRes::Partial; }
        if is_spht(s[c]) { c += 1; continue; }
        if is_hval(s[c]) { return spec_vlines(s, nlo, nhi, c, c, cfg); }
        let n = if s[c] == 0x0a { c + 1 } else { c + 2 };
        if s[c] == 0x0d && c + 1 >= s.len() { return LineRes::Partial; }
        if s[c] == 0x0d && s[c + 1] != 0x0a { return LineRes::Err(Kind::HeaderValue); }
        if s[c] != 0x0d && s[c] != 0x0a { return spec_invalid(s, c, Kind::HeaderValue, cfg); }
        if cfg.fold && n >= s.len() { return LineRes::Partial; }
        if cfg.fold && is_spht(s[n]) { c = n; continue; }
        return LineRes::Header(SHdr { name_lo: nlo, name_hi: nhi, val_lo: c, val_hi: c }, n);
    }
}
pub fn spec_name_ws(s: &[u8], nlo: usize, nhi: usize, mut q: usize, cfg: HCfg) -> LineRes {
    loop {
        if q >= s.len() { return LineRes::Partial; }
        if !is_spht(s[q]) { return spec_invalid(s, q, Kind::HeaderName, cfg); }
        if q + 1 >= s.len() { return LineRes::Partial; }
        if s[q + 1] == b':' { return spec_ws(s, nlo, nhi, q + 2, cfg); }
        q += 1;
    }
}
pub fn spec_line(s: &[u8], p: usize, first: bool, cfg: HCfg) -> LineRes {
    if p >= s.len() { return LineRes::Partial; }
    if s[p] == 0x0d {
        return if p + 1 >= s.len() { LineRes::Partial } else if s[p + 1] == 0x0a { LineRes::End(p + 2) } else { LineRes::Err(Kind::NewLine) };
    }
    if s[p] == 0x0a { return LineRes::End(p + 1); }
    if !is_tchar(s[p]) {
        return if cfg.sp_before_first && first && is_spht(s[p]) { LineRes::Skip(p + 1) } else { spec_invalid(s, p, Kind::HeaderName, cfg) };
    }
    let e = first_not(is_tchar, s, p);
    if e >= s.len() { LineRes::Partial }
    else if s[e] == b':' { spec_ws(s, p, e, e + 1, cfg) }
    else if cfg.sp_after_name { spec_name_ws(s, p, e, e, cfg) }
    else { spec_invalid(s, e, Kind::HeaderName, cfg) }
}
pub fn spec_hdrs(s: &[u8], mut p: usize, cfg: HCfg, cap: usize) -> SRes<Vec<SHdr>> {
    let mut acc = Vec::new();
    loop {
        match spec_line(s, p, acc.is_empty(), cfg) {
            LineRes::End(n) => return SRes::Complete(acc, n),
            LineRes::Header(h, n) => { if acc.len() >= cap { return SRes::Err(Kind::TooManyHeaders); } acc.push(h); p = n; }
            LineRes::Skip(n) => p = n,
            LineRes::Partial => return SRes::Partial,
            LineRes::Err(e) => return SRes::Err(e),
        }
    }
}

// ------------------------------------------------------------------------------------------------ whole messages
#[derive(Debug, Clone, Copy, PartialEq, Eq, Default)]
pub struct Cfg {
    pub sp_after_name_resp: bool, pub fold_resp: bool, pub multi_sp_req: bool, pub multi_sp_resp: bool,
    pub sp_before_first: bool, pub ignore_resp: bool, pub ignore_req: bool,
}
impl Cfg {
    pub fn from_bits(b: u8) -> Cfg {
        Cfg { sp_after_name_resp: b & 1 != 0, fold_resp: b & 2 != 0, multi_sp_req: b & 4 != 0, multi_sp_resp: b & 8 != 0,
              sp_before_first: b & 16 != 0, ignore_resp: b & 32 != 0, ignore_req: b & 64 != 0 }
    }
}
#[derive(Debug, Clone, PartialEq, Eq)]
pub enum Outcome { Complete(usize), Partial, Err(Kind) }
/// everything observable after a request parse: fields assigned by THIS call (None = not assigned) + headers on Complete
#[derive(Debug, Clone, PartialEq, Eq)]
pub struct ReqOut { pub outcome: Outcome, pub method: Option<(usize, usize)>, pub path: Option<(usize, usize)>, pub version: Option<u8>, pub headers: Vec<SHdr> }
#[derive(Debug, Clone, PartialEq, Eq)]
pub struct RespOut { pub outcome: Outcome, pub version: Option<u8>, pub code: Option<u16>, pub reason: Option<(usize, usize, bool)>, pub headers: Vec<SHdr> }

macro_rules! step {
    ($out:ident, $e:expr) => { match $e { SRes::Complete(v, c) => (v, c), SRes::Partial => { $out.outcome = Outcome::Partial; return $out; } SRes::Err(k) => { $out.outcome = Outcome::Err(k); return $out; } } };
}
pub fn spec_request(s: &[u8], cfg: Cfg, cap: usize) -> ReqOut {
    let mut out = ReqOut { outcome: Outcome::Partial, method: None, path: None, version: None, headers: vec![] };
    let (_, mut c) = step!(out, spec_empty_lines(s, 0));
    let (m, c2) = step!(out, spec_token(s, c)); c = c2;
    out.method = Some(m);
    if cfg.multi_sp_req { let (_, c2) = step!(out, spec_spaces(s, c)); c = c2; }
    let (p, c2) = step!(out, spec_uri(s, c)); c = c2;
    out.path = Some(p);
    if cfg.multi_sp_req { let (_, c2) = step!(out, spec_spaces(s, c)); c = c2; }
    let (v, c2) = step!(out, spec_version(s, c)); c = c2;
    out.version = Some(v);
    let (_, c2) = step!(out, spec_eol(s, c, Kind::NewLine)); c = c2;
    let h = HCfg { sp_after_name: false, fold: false, sp_before_first: cfg.sp_before_first, ignore: cfg.ignore_req };
    let (hs, e) = step!(out, spec_hdrs(s, c, h, cap));
    out.headers = hs;
    out.outcome = Outcome::Complete(e);
    out
}
pub fn spec_response(s: &[u8], cfg: Cfg, cap: usize) -> RespOut {
    let mut out = RespOut { outcome: Outcome::Partial, version: None, code: None, reason: None, headers: vec![] };
    let (_, mut c) = step!(out, spec_empty_lines(s, 0));
    let (v, c2) = step!(out, spec_version(s, c)); c = c2;
    out.version = Some(v);
    // "one SP" after the version: C10 names it Version
    if c >= s.len() { return out; }
    if s[c] != 0x20 { out.outcome = Outcome::Err(Kind::Version); return out; }
    c += 1;
    if cfg.multi_sp_resp { let (_, c2) = step!(out, spec_spaces(s, c)); c = c2; }
    let (code, c2) = step!(out, spec_code(s, c)); c = c2;
    out.code = Some(code);
    // "then either a line end or one SP followed by a possibly empty reason and a line end"
    if c >= s.len() { return out; }
    if s[c] == 0x20 {
        c += 1;
        if cfg.multi_sp_resp { let (_, c2) = step!(out, spec_spaces(s, c)); c = c2; }
        let (r, c2) = step!(out, spec_reason(s, c)); c = c2;
        out.reason = Some(r);
    } else {
        let (_, c2) = step!(out, spec_eol(s, c, Kind::Status)); c = c2;
        out.reason = Some((c, c, false));
    }
    let h = HCfg { sp_after_name: cfg.sp_after_name_resp, fold: cfg.fold_resp, sp_before_first: cfg.sp_before_first, ignore: cfg.ignore_resp };
    let (hs, e) = step!(out, spec_hdrs(s, c, h, cap));
    out.headers = hs;
    out.outcome = Outcome::Complete(e);
    out
}

// ------------------------------------------------------------------------------------------------ chunk size
#[derive(Debug, Clone, PartialEq, Eq)]
pub enum SChunk { Complete(usize, u128), Partial, Invalid }
pub fn hex_value(s: &[u8]) -> u128 {
    let mut v: u128 = 0;
    for &b in s { v = v * 16 + (if b.is_ascii_digit() { b - b'0' } else if (b'a'..=b'f').contains(&b) { b - b'a' + 10 } else { b - b'A' + 10 }) as u128; }
    v
}
fn chunk_crlf(s: &[u8], e: usize, v: u128) -> SChunk {
    if e + 1 >= s.len() { SChunk::Partial } else if s[e + 1] == 0x0a { SChunk::Complete(e + 2, v) } else { SChunk::Invalid }
}
pub fn spec_chunk(s: &[u8]) -> SChunk {
    let d = first_not(is_hex, s, 0);
    if d > 16 { return SChunk::Invalid; }
    if d >= s.len() { return SChunk::Partial; }
    if d == 0 { return SChunk::Invalid; }
    let v = hex_value(&s[0..d]);
    let w = first_not(is_spht, s, d);
    if w >= s.len() { SChunk::Partial }
    else if s[w] == b';' {
        let e = first_not(|b| b != 0x0d, s, w + 1);
        if e >= s.len() { SChunk::Partial } else { chunk_crlf(s, e, v) }
    }
    else if s[w] == 0x0d { chunk_crlf(s, w, v) }
    else { SChunk::Invalid }
}
