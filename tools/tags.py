"""Tag groups: a property depends on EVERY contract on the path from its entry points down to the leaves (verification is
modular: a caller is checked against the callee's contract), so obligations are tagged with all properties they carry."""
GROUPS = {
    # the header block is part of every message parse and of parse_headers
    '@HDR': 'C02 C03 C04 C05 C06 C07 C08 C10 C11 C14 C15 C16 C17 C18',
    '@REQ': 'C02 C03 C04 C05 C06 C10 C11 C15 C16 C17 C18',
    '@RESP': 'C02 C03 C04 C05 C07 C10 C11 C15 C16 C17 C18',
    '@MSG': 'C02 C03 C04 C05 C06 C07 C10 C11 C15 C16 C17 C18',
    '@CHUNK': 'C09 C02 C03 C11 C13',
    # the cursor: everything that parses
    '@ALL': 'C01 C02 C03 C04 C05 C06 C07 C08 C09 C10 C11 C13 C14 C15 C16 C17 C18 C20',
}


def expand(tags):
    out = []
    for t in tags or []:
        for x in (GROUPS[t].split() if t in GROUPS else [t]):
            if x not in out:
                out.append(x)
    return out
