#!/usr/bin/env python3
"""One-off maintenance tool: (re)write the `locals` / `params` lines of every `fn` block of contracts/*.vspec from the CURRENT
text of the functions (run on the pinned tree).  They let the generator follow a renamed local or parameter (gen.rename_map)."""
import os, re, sys
sys.path.insert(0, os.path.dirname(os.path.abspath(__file__)))
import gen
from cut import get_fn
V = gen.VERIF
src = gen.Sources(gen.REPO)
for f in sorted(os.listdir(os.path.join(V, 'contracts'))):
    if not f.endswith('.vspec'):
        continue
    path = os.path.join(V, 'contracts', f)
    specs, _ = gen.parse_sidecar(path)
    lines = [l for l in open(path).read().split('\n') if not re.match(r'  (locals|params)( |$)', l)]
    out, k = [], 0
    fn_specs = iter(specs)
    for l in lines:
        out.append(l)
        if re.match(r'fn \w+', l):
            sp = next(fn_specs)
            text = get_fn(src.expanded() if sp.mode == 'expanded' else src.get(sp.source), sp.name, sp.scope)
            text, _ = gen.hoist_local_items(text, sp.key)
            text = gen.generic_rewrites(text, sp.key)
            head, sig, body = gen.split_sig_body(text)
            ps, ls = gen.param_names(sig), gen.bound_names(body)
            if ps:
                out.append('  params ' + ' '.join(ps))
            if ls:
                out.append('  locals ' + ' '.join(ls))
    open(path, 'w').write('\n'.join(out))
    print(f, 'ok')
