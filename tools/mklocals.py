#!/usr/bin/env python3
"""Maintenance tool (run on the pinned tree after editing sidecars); also records, on every `hint` line, how many times its
anchor occurs in the pinned text (`of=N`), so that a changed count is noticed (gen.inject).
One-off maintenance tool: (re)write the `locals` / `params` lines of every `fn` block of contracts/*.vspec from the CURRENT
text of the functions (run on the pinned tree).  They let the generator follow a renamed local or parameter (gen.rename_map)."""
import os, re, sys
sys.path.insert(0, os.path.dirname(os.path.abspath(__file__)))
import gen
from cut import get_fn
V = gen.VERIF
src = gen.Sources(gen.REPO)
for f in sorted(os.listdir(os.path.join(V, 'contracts'))):
    if not f.endswith('.vspec'):
        continue
    path = os.path.join(V, 'contracts', f)
    specs, _ = gen.parse_sidecar(path)
    lines = [l for l in open(path).read().split('\n') if not re.match(r'  (locals|params|ops)( |$)', l)]
    out, k = [], 0
    fn_specs = iter(specs)
    for l in lines:
        out.append(l)
        if re.match(r'fn \w+', l):
            sp = next(fn_specs)
            text = get_fn(src.expanded() if sp.mode == 'expanded' else src.get(sp.source), sp.name, sp.scope)
            text, _ = gen.hoist_local_items(text, sp.key)
            text = gen.generic_rewrites(text, sp.key)
            head, sig, body = gen.split_sig_body(text)
            ps, ls = gen.param_names(sig), gen.bound_names(body)
            if ps:
                out.append('  params ' + ' '.join(ps))
            if ls:
                out.append('  locals ' + ' '.join(ls))
            if not sp.trusted:
                ops = gen.op_signature(body)
                out.append('  ops ' + ' '.join('%s:%d' % (o, ops[o]) for o in gen.OPS))
    open(path, 'w').write('\n'.join(out))
    print(f, 'ok')

# second pass: anchor occurrence counts for hints (needs a full generation of both variants)
import json
for variant in ('main', 'hdrproof'):
    os.environ['VERIF_VARIANT'] = variant
    gen.HINT_COUNTS.clear()
    gen.build('/dev/null')
    counts = dict(gen.HINT_COUNTS)
    for f in sorted(os.listdir(os.path.join(V, 'contracts'))):
        if not f.endswith('.vspec'):
            continue
        path = os.path.join(V, 'contracts', f)
        specs, _ = gen.parse_sidecar(path)
        lines = open(path).read().split('\n')
        out, cur, hi = [], None, 0
        it = iter(specs)
        for l in lines:
            if re.match(r'fn \w+', l):
                cur = next(it); hi = 0
            m = re.match(r'  hint (before|after) ', l)
            if m and cur is not None:
                h = cur.hints[hi]; hi += 1
                n = counts.get((cur.key, h['where'], h['anchor'], h['ord']))
                if n is not None and (cur.extra.get('variant') in (None, {'main': 'assumed', 'hdrproof': 'proof'}[variant])):
                    l = re.sub(r' of=\d+', '', l) + ' of=%d' % n
            out.append(l)
        open(path, 'w').write('\n'.join(out))
print('hint counts written')
