#!/usr/bin/env python3
"""C19 (allocation-free): closed callee frame.

Verus refuses any call to a function without a specification, so the functions reachable from a function under contract
are exactly the assumed-specification list plus vstd's own non-allocating primitives.  What Verus does not see are the
bodies of the external leaves (iter.rs, the block functions, the cast wrappers, the Drop guard) and the macros; those,
and -- as a second line -- every non-test item of the crate, are scanned here for paths into the allocator.
One obligation per source file; a hit is reported with its line.  `extern crate alloc` / `use alloc` anywhere is a hit.
"""
import os
import re

DENY = re.compile(r'\b(env::var|env::args|String\b|OsString|PathBuf|alloc::|extern\s+crate\s+alloc|std::vec|std::string|std::boxed|std::collections|std::rc|std::sync::Arc|Vec\s*<|Vec::|String::|Box::|Box\s*<|Rc::|Arc::|\.to_vec\(|\.to_owned\(|\.to_string\(|\.into_boxed|format!|vec!|\.collect::<\s*(Vec|String)|HashMap|BTreeMap|VecDeque|Cow::Owned)')


def strip_tests(src):
    """drop `#[cfg(test)] mod tests {..}`, `#[test] fn ..` items and comments/strings"""
    from cut import match_brace, skip_trivia
    out = src
    while True:
        m = re.search(r'#\[cfg\(test\)\]\s*mod\s+\w+\s*\{', out)
        if not m:
            break
        e = match_brace(out, m.end() - 1)
        out = out[:m.start()] + '\n' * out[m.start():e].count('\n') + out[e:]
    while True:
        m = re.search(r'#\[test\]\s*(?:#\[[^\]]*\]\s*)*fn\s+\w+\s*\([^)]*\)\s*\{', out)
        if not m:
            break
        e = match_brace(out, m.end() - 1)
        out = out[:m.start()] + '\n' * out[m.start():e].count('\n') + out[e:]
    # blank comments and string literals, keep line structure
    res, p = [], 0
    while p < len(out):
        q = skip_trivia(out, p)
        if q is not None:
            res.append(re.sub(r'[^\n]', ' ', out[p:q]))
            p = q
        else:
            res.append(out[p])
            p += 1
    return ''.join(res)


def scan(repo):
    checks = []
    files = ['lib.rs', 'iter.rs', 'macros.rs', 'simd/mod.rs', 'simd/swar.rs', 'simd/sse42.rs', 'simd/avx2.rs', 'simd/runtime.rs', 'simd/neon.rs']
    srcdir = os.path.join(repo, 'src')
    for d, _, fs in os.walk(srcdir):
        for f in fs:
            rel = os.path.relpath(os.path.join(d, f), srcdir)
            if rel.endswith('.rs') and rel not in files:
                files.append(rel)
    for rel in files:
        p = os.path.join(srcdir, rel)
        if not os.path.exists(p):
            continue
        src = strip_tests(open(p).read())
        hits = []
        for n, line in enumerate(src.split('\n'), 1):
            m = DENY.search(line)
            if m:
                hits.append('%s:%d: %s' % (rel, n, line.strip()[:160]))
        checks.append(dict(obligation='no-allocating-callee:' + rel, where='src/' + rel, status='fail' if hits else 'pass',
                           detail='\n'.join(hits[:10]), text='no path into the allocator in any non-test item of src/%s (deny list: alloc::, Vec, String, Box, Rc/Arc, to_vec/to_owned/to_string, format!, vec!, collect::<Vec|String>, maps)' % rel))
    checks.append(nostd_build(repo))
    return dict(checks=checks)


def nostd_build(repo):
    """auxiliary (a build, not a contract): the crate compiles with the std feature off"""
    import shutil, subprocess, tempfile
    d = tempfile.mkdtemp(prefix='httparse-nostd-')
    try:
        subprocess.check_call(['rsync', '-a', '--exclude', 'target', '--exclude', '.git', '--exclude', 'fuzz', repo + '/', d + '/'])
        env = dict(os.environ, CARGO_NET_OFFLINE='true')
        env.pop('RUSTUP_TOOLCHAIN', None)
        p = subprocess.run(['cargo', 'check', '--lib', '--no-default-features', '--offline', '-q'], cwd=d, env=env, capture_output=True, text=True, errors="replace", timeout=600)
        ok = p.returncode == 0
        return dict(obligation='build:no-default-features', where='Cargo features', status='pass' if ok else 'fail',
                    detail='' if ok else (p.stdout + p.stderr)[-1500:],
                    text='`cargo check --lib --no-default-features` on a copy of the working tree (with std off the crate is #![no_std]: any use of std or alloc fails to resolve)')
    except Exception as e:   # noqa
        return dict(obligation='build:no-default-features', where='Cargo features', status='undecided', detail='build check could not run: %s' % e, text='')
    finally:
        shutil.rmtree(d, ignore_errors=True)


if __name__ == '__main__':
    import json, sys
    sys.path.insert(0, os.path.dirname(os.path.abspath(__file__)))
    print(json.dumps(scan(os.environ.get('VERIF_REPO', '/repo')), indent=1))
