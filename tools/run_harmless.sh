#!/bin/bash
# Self-test (not a registered check): semantics-preserving edits must never produce a VIOLATION (exit 1); exit 0 or 2 only.
cd $(dirname $0)/..
out=seeded/harmless/RESULTS.txt; : > $out.tmp
for d in seeded/harmless/N*.diff; do
  n=$(basename $d .diff)
  r=$(LINES_MAX=6 tools/try_mutant.sh $PWD/$d ${PROPS:-C01 C06 C07 C08 C09 C12 C02 C17} 2>&1)
  codes=$(echo "$r" | grep -a "exit=" | sed 's/.*\[\(C[0-9]*\)\] exit=\([0-9]\)/\1:\2/' | paste -sd' ')
  viol=$(echo "$r" | grep -a -c "VIOLATION")
  echo "$n | $codes | violations=$viol" >> $out.tmp
done
mv $out.tmp $out; cat $out
