#!/usr/bin/env python3
"""setup_cmd: nothing to build (Python scripts + pre-installed verus / kani); verify the tools are present."""
import shutil, subprocess, sys
ok = True
for t in ('verus', 'cargo', 'rustc', 'rsync', 'python3-vt'):
    if not shutil.which(t):
        print('missing tool:', t); ok = False
p = subprocess.run(['cargo', 'kani', '--version'], capture_output=True, text=True)
if p.returncode != 0:
    print('cargo kani not available:', p.stderr[-300:]); ok = False
else:
    print(p.stdout.strip())
print(subprocess.run(['verus', '--version'], capture_output=True, text=True).stdout.strip()[:200])
sys.exit(0 if ok else 1)
