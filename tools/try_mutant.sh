#!/bin/bash
# usage: tools/try_mutant.sh <patch.diff> <prop> [<prop>...]   -- applies the patch to /repo, runs the checks, ALWAYS reverts
patch="$1"; shift
cd /repo || exit 3
if ! git diff --quiet; then echo "/repo has uncommitted changes"; exit 3; fi
git apply "$patch" || { echo "patch does not apply"; exit 3; }
trap 'git -C /repo checkout -- . ' EXIT
cd /verif
for p in "$@"; do
  ./check "$p" --tier ${TIER:-quick} 2>&1 | sed "s/^/[$p] /" | head -${LINES_MAX:-8}
  echo "[$p] exit=${PIPESTATUS[0]}"
done
