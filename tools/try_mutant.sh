#!/bin/bash
# usage: tools/try_mutant.sh <patch.diff> <prop> [<prop>...]   -- applies the patch to ${VERIF_REPO:-/repo}, runs the checks, ALWAYS reverts
V=$(cd $(dirname $0)/..; pwd)
patch="$1"; shift
R=${VERIF_REPO:-/repo}
cd $R || exit 3
if ! git diff --quiet; then echo "/repo has uncommitted changes"; exit 3; fi
git apply "$patch" || { echo "patch does not apply"; exit 3; }
trap "git -C $R checkout -- . " EXIT
cd $V
for p in "$@"; do
  ./check "$p" --tier ${TIER:-quick} 2>&1 | sed "s/^/[$p] /" | head -${LINES_MAX:-8}
  echo "[$p] exit=${PIPESTATUS[0]}"
done
