#!/usr/bin/env python3
"""C13 (build-switch lattice): extract the `#[cfg(...)]` attributes of /repo/src/simd/mod.rs into propositional formulas
and decide with z3, for EVERY assignment of the switches (httparse_simd, the two target-feature cfgs, neon_intrinsics,
target_arch in {x86, x86_64, aarch64, other}):
  (1) exactly one provider of the three scanner names (`pub use self::X::*`) is active;
  (2) every simd module that an active item refers to (`super::m::`, `crate::simd::m::`) is itself compiled.
The derivation of the cfgs in build.rs is read, not verified; actually building the combinations is out of scope.
Run with the tooling python (python3-vt: z3-solver).  Prints one JSON object.
"""
import json
import os
import re
import sys

REPO = os.environ.get('VERIF_REPO', '/repo')


def tokenize(s):
    return re.findall(r'[A-Za-z_][A-Za-z0-9_]*|"[^"]*"|[(),=]', s)


def parse(tokens, pos=0):
    """-> (tree, pos); tree = ('all'|'any'|'not', [..]) | ('atom', name) | ('eq', key, value)"""
    t = tokens[pos]
    if t in ('all', 'any', 'not') and tokens[pos + 1] == '(':
        pos += 2
        args = []
        while tokens[pos] != ')':
            a, pos = parse(tokens, pos)
            args.append(a)
            if tokens[pos] == ',':
                pos += 1
        return (t, args), pos + 1
    if pos + 1 < len(tokens) and tokens[pos + 1] == '=':
        return ('eq', t, tokens[pos + 2].strip('"')), pos + 3
    return ('atom', t), pos + 1


def items(src):
    """[(cfg tree or None, item text)] for top-level items of simd/mod.rs"""
    out = []
    i = 0
    pending = None
    lines = src.split('\n')
    while i < len(lines):
        l = lines[i]
        if l.startswith('#[cfg('):
            j = i
            buf = l
            while buf.count('(') != buf.count(')'):
                j += 1
                buf += lines[j]
            inner = buf[buf.index('#[cfg(') + 6: buf.rindex(')]')]
            pending, _ = parse(tokenize(inner))
            i = j + 1
            continue
        m = re.match(r'(pub use self::(\w+)::\*;|mod (\w+)(;| \{))', l)
        if m:
            text = l
            if m.group(4) == ' {':
                j = i
                depth = 0
                body = []
                while True:
                    depth += lines[j].count('{') - lines[j].count('}')
                    body.append(lines[j])
                    if depth == 0:
                        break
                    j += 1
                text = '\n'.join(body)
                i = j
            out.append((pending, text))
            pending = None
        elif l.strip() and not l.startswith('//'):
            pending = None
        i += 1
    return out


def main():
    import z3
    src = open(os.path.join(REPO, 'src/simd/mod.rs')).read()
    its = items(src)
    atoms = {}
    archs = ['x86', 'x86_64', 'aarch64', 'other']
    arch = {a: z3.Bool('arch_' + a) for a in archs}

    def enc(t):
        if t is None:
            return z3.BoolVal(True)
        k = t[0]
        if k == 'all':
            return z3.And([enc(x) for x in t[1]])
        if k == 'any':
            return z3.Or([enc(x) for x in t[1]])
        if k == 'not':
            return z3.Not(enc(t[1][0]))
        if k == 'eq':
            if t[1] != 'target_arch':
                raise ValueError('unexpected cfg key ' + t[1])
            return arch[t[2]] if t[2] in arch else z3.BoolVal(False)
        return atoms.setdefault(t[1], z3.Bool(t[1]))

    providers, modules = [], {}
    for cfg, text in its:
        f = enc(cfg)
        m = re.match(r'pub use self::(\w+)::\*;', text)
        if m:
            providers.append((m.group(1), f))
            continue
        m = re.match(r'mod (\w+)', text)
        if m:
            name = m.group(1)
            body = text
            path = os.path.join(REPO, 'src/simd', name + '.rs')
            if text.rstrip().endswith(';') and os.path.exists(path):
                body = open(path).read()
            refs = set(re.findall(r'super::(\w+)::', body)) | set(re.findall(r'crate::simd::(\w+)::', body)) | set(re.findall(r'use super::(\w+);', body))
            modules[name] = (f, refs - {name})
    one_arch = z3.And(z3.Or(list(arch.values())), *[z3.Not(z3.And(arch[a], arch[b])) for i, a in enumerate(archs) for b in archs[i + 1:]])
    res = dict(items=len(its), providers=[p for p, _ in providers], modules=sorted(modules), atoms=sorted(atoms), checks=[], ok=True)

    def check(name, claim):
        s = z3.Solver()
        s.add(one_arch, z3.Not(claim))
        r = s.check()
        entry = dict(obligation=name, status='pass' if r == z3.unsat else 'fail')
        if r != z3.unsat:
            m = s.model()
            entry['counterexample'] = {str(d): str(m[d]) for d in m.decls()}
            res['ok'] = False
        res['checks'].append(entry)

    pf = [f for _, f in providers]
    check('exactly-one-provider', z3.And(z3.Or(pf), *[z3.Not(z3.And(pf[i], pf[j])) for i in range(len(pf)) for j in range(i + 1, len(pf))]))
    for pname, f in providers:
        if pname not in modules:
            check('provider-module-declared:%s' % pname, z3.BoolVal(False))
            continue
        check('provider-module-compiled:%s' % pname, z3.Implies(f, modules[pname][0]))
    for name, (f, refs) in sorted(modules.items()):
        for r in sorted(refs):
            if r in modules:
                check('module-ref-compiled:%s->%s' % (name, r), z3.Implies(f, modules[r][0]))
    print(json.dumps(res))
    return 0


if __name__ == '__main__':
    sys.exit(main())
