#!/usr/bin/env python3
"""Layer K: run the Kani leaf harnesses on a scratch copy of /repo's current working tree.

The scratch copy differs from /repo only by APPENDED lines (accessors for private leaves, guarded by `#[cfg(kani)]`) and by
new files (`src/kani_harnesses.rs` from /verif/kani/harnesses.rs, `src/kani_gen.rs` generated from text cut out of the
real source: rule X2 of DESIGN.md).  A diff guard enforces that.  The copy and its build output are removed afterwards.
"""
import json
import os
import re
import shutil
import subprocess
import sys
import tempfile
import time

sys.path.insert(0, os.path.dirname(os.path.abspath(__file__)))
from cut import AnchorLost, find_scope, get_fn, match_brace

VERIF = os.path.dirname(os.path.dirname(os.path.abspath(__file__)))
REPO = os.environ.get('VERIF_REPO', '/repo')

APPEND = {
    'src/simd/swar.rs': '''
#[cfg(kani)] pub(crate) fn kani_uri8(b: ByteBlock) -> usize { match_uri_char_8_swar(b) }
#[cfg(kani)] pub(crate) fn kani_hval8(b: ByteBlock) -> usize { match_header_value_char_8_swar(b) }
#[cfg(kani)] pub(crate) fn kani_match_block_name(b: ByteBlock) -> usize { match_block(is_header_name_token, b) }
#[cfg(kani)] pub(crate) fn kani_match_tail_name(s: &[u8]) -> usize { match_tail(is_header_name_token, s) }
''',
    'src/simd/sse42.rs': '''
#[cfg(kani)] pub(crate) unsafe fn kani_uri16(b: &[u8]) -> usize { match_url_char_16_sse(b) }
#[cfg(kani)] pub(crate) unsafe fn kani_hval16(b: &[u8]) -> usize { match_header_value_char_16_sse(b) }
''',
    'src/simd/avx2.rs': '''
#[cfg(kani)] pub(crate) unsafe fn kani_uri32(b: &[u8]) -> usize { match_url_char_32_avx(b) }
#[cfg(kani)] pub(crate) unsafe fn kani_hval32(b: &[u8]) -> usize { match_header_value_char_32_avx(b) }
''',
    'src/simd/runtime.rs': '''
#[cfg(kani)] pub(crate) fn kani_get_runtime_feature() -> u8 { get_runtime_feature() }
#[cfg(kani)] pub(crate) fn kani_runtime_feature_cell() -> &'static AtomicU8 { &RUNTIME_FEATURE }
''',
    'src/simd/mod.rs': '''
#[cfg(kani)]
pub(crate) mod kani_access {
    pub fn uri8(b: [u8; 8]) -> usize { super::swar::kani_uri8(b) }
    pub fn hval8(b: [u8; 8]) -> usize { super::swar::kani_hval8(b) }
    pub fn match_block_name(b: [u8; 8]) -> usize { super::swar::kani_match_block_name(b) }
    pub fn match_tail_name(s: &[u8]) -> usize { super::swar::kani_match_tail_name(s) }
    #[cfg(httparse_simd)] pub unsafe fn uri16(b: &[u8]) -> usize { super::sse42::kani_uri16(b) }
    #[cfg(httparse_simd)] pub unsafe fn hval16(b: &[u8]) -> usize { super::sse42::kani_hval16(b) }
    #[cfg(httparse_simd)] pub unsafe fn uri32(b: &[u8]) -> usize { super::avx2::kani_uri32(b) }
    #[cfg(httparse_simd)] pub unsafe fn hval32(b: &[u8]) -> usize { super::avx2::kani_hval32(b) }
    #[cfg(httparse_simd)] pub fn get_runtime_feature() -> u8 { super::runtime::kani_get_runtime_feature() }
    #[cfg(httparse_simd)] pub fn runtime_feature_cell() -> &'static std::sync::atomic::AtomicU8 { super::runtime::kani_runtime_feature_cell() }
@NEON_ACCESS@}
@NEON_MODS@''',
    'src/lib.rs': '''
#[cfg(kani)] mod kani_harnesses;
#[cfg(kani)] mod kani_gen;
''',
}


NEON_ACCESS_LINES = '''    pub unsafe fn neon_name16(p: *const u8) -> usize { super::neon_kani::kani_name16(p) }
    pub unsafe fn neon_uri16(p: *const u8) -> usize { super::neon_kani::kani_uri16(p) }
    pub unsafe fn neon_hval16(p: *const u8) -> usize { super::neon_kani::kani_hval16(p) }
'''
NEON_MOD_LINES = '''#[cfg(kani)] #[allow(dead_code, unused_imports)] pub(crate) mod neon_emu;
#[cfg(kani)] #[allow(dead_code, unused_imports)] #[path = "neon_kani.rs"] pub(crate) mod neon_kani;
'''


def append_text(rel, skip_neon=False):
    t = APPEND[rel]
    return t.replace('@NEON_ACCESS@', '' if skip_neon else NEON_ACCESS_LINES).replace('@NEON_MODS@', '' if skip_neon else NEON_MOD_LINES)


def gen_module(repo):
    """src/kani_gen.rs: harnesses over text cut mechanically from the real source (X2: the fn-local Drop guard; R4: fn-local consts)"""
    lib = open(os.path.join(repo, 'src/lib.rs')).read()
    body = get_fn(lib, 'parse_headers_iter_uninit')
    items = []
    for rx in (r'^[ \t]+struct ShrinkOnDrop', r'^[ \t]+impl Drop for ShrinkOnDrop'):
        m = re.search(rx, body, re.M)
        if not m:
            raise AnchorLost('guard item not found: ' + rx)
        j = body.index('{', m.end())
        items.append(body[m.start():match_brace(body, j)])
    ver = get_fn(lib, 'parse_version')
    met = get_fn(lib, 'parse_method')
    consts, asserts = [], []
    sys.path.insert(0, os.path.dirname(os.path.abspath(__file__)))
    from gen import _lit_bytes
    for t in (ver, met):
        for full, cname, init in re.findall(r'^[ \t]+(const (\w+): [^=]+? = ([^;]+);)', t, re.M):
            consts.append(full)
            m = re.fullmatch(r'\*b"((?:[^"\\\\]|\\\\.)*)"', init.strip())
            if m:
                asserts.append('    assert_eq!(%s, [%s]);' % (cname, ', '.join('0x%02xu8' % b for b in _lit_bytes(m.group(1)))))
            m = re.fullmatch(r'u64::from_ne_bytes\(\*b"((?:[^"\\\\]|\\\\.)*)"\)', init.strip())
            if m:
                asserts.append('    assert_eq!(%s, u64::from_le_bytes([%s]));' % (cname, ', '.join('0x%02x' % b for b in _lit_bytes(m.group(1)))))
    out = '''//! GENERATED by /verif/tools/kani_run.py from text cut out of src/lib.rs (rules X2, R4 of /verif/DESIGN.md)
#![allow(unused)]
use crate::*;
use core::mem::MaybeUninit;
use core::mem;
// ---- fn-local items of parse_headers_iter_uninit, verbatim
%s

#[kani::proof]
fn leaf_guard_shrinks_exactly() {
    // precondition (proved in Verus at every exit of the header parser): num_headers <= capacity
    static S1: &str = "sentinel";
    let mut arr = [Header { name: S1, value: b"" }; 4];
    let cap: usize = kani::any_where(|c: &usize| *c <= 4);
    let k: usize = kani::any_where(|k: &usize| *k <= cap);
    let p0 = arr.as_ptr() as usize;
    let init: &mut [Header] = &mut arr[..cap];
    let mut headers: &mut [MaybeUninit<Header>] = unsafe { &mut *(init as *mut [Header] as *mut [MaybeUninit<Header>]) };
    {
        let g = ShrinkOnDrop { headers: &mut headers, num_headers: k };
        drop(g);
    }
    assert!(headers.len() == k);
    assert!(headers.as_ptr() as usize == p0 || k == 0);
}

// ---- fn-local consts of parse_version / parse_method, verbatim; their values are what the Verus file states as `ensures`
%s
#[kani::proof]
fn leaf_const_values() {
%s
}
''' % ('\n'.join(items), '\n'.join(consts), '\n'.join(asserts))
    return out


NEON_IMPORT = 'use core::arch::aarch64::*;'
NEON_ACCESS = '''
#[cfg(kani)] pub(crate) unsafe fn kani_name16(p: *const u8) -> usize { match_header_name_char_16_neon(p) }
#[cfg(kani)] pub(crate) unsafe fn kani_uri16(p: *const u8) -> usize { match_url_char_16_neon(p) }
#[cfg(kani)] pub(crate) unsafe fn kani_hval16(p: *const u8) -> usize { match_header_value_char_16_neon(p) }
'''


def neon_module(repo):
    """src/simd/neon_kani.rs: the text of src/simd/neon.rs with exactly ONE line changed -- its import of core::arch::aarch64
    (not available on this x86-64 host) is redirected to the emulation module kani/neon_emu.rs (rule N1) -- plus appended
    accessor lines.  Anything else that differs is a bug in this function and is caught by the guard below."""
    t = open(os.path.join(repo, 'src/simd/neon.rs')).read()
    if t.count(NEON_IMPORT) != 1:
        raise AnchorLost('src/simd/neon.rs: import line %r found %d times, expected 1' % (NEON_IMPORT, t.count(NEON_IMPORT)))
    out = t.replace(NEON_IMPORT, 'use super::neon_emu::*;') + NEON_ACCESS
    # guard: undoing the one rewrite and dropping the appended lines gives back the real file, byte for byte
    assert out[:len(out) - len(NEON_ACCESS)].replace('use super::neon_emu::*;', NEON_IMPORT) == t
    return out


def diff_guard(repo, scratch):
    """scratch/src may differ from repo/src only by appended lines and by the two new files"""
    for root, _, files in os.walk(os.path.join(repo, 'src')):
        for f in files:
            p = os.path.join(root, f)
            rel = os.path.relpath(p, repo)
            a = open(p, 'rb').read()
            b = open(os.path.join(scratch, rel), 'rb').read()
            if not b.startswith(a):
                raise RuntimeError('diff guard: %s is not an append-only copy' % rel)
            extra = b[len(a):].decode()
            if extra.strip() and extra.strip() not in (append_text(rel).strip() if rel in APPEND else '', append_text(rel, True).strip() if rel in APPEND else ''):
                raise RuntimeError('diff guard: unexpected appended text in ' + rel)


def playback(scratch, h, env):
    """re-run one failed harness with --concrete-playback=inplace, then execute the generated unit test natively"""
    out = dict(values=None, native_replay='not-run', detail='')
    try:
        p = subprocess.run(['cargo', 'kani', '-Z', 'stubbing', '-Z', 'concrete-playback', '--concrete-playback=inplace', '--harness', h],
                           cwd=scratch, env=env, capture_output=True, text=True, errors="replace", timeout=900)
        src = open(os.path.join(scratch, 'src/kani_harnesses.rs')).read() + open(os.path.join(scratch, 'src/kani_gen.rs')).read()
        m = re.search(r'fn (kani_concrete_playback_%s_\w+)\(\) \{(.*?)kani::concrete_playback_run' % re.escape(h), src, re.S)
        if not m:
            out['detail'] = 'no concrete playback test was generated: ' + (p.stdout + p.stderr)[-600:]
            return out
        out['values'] = [[int(x) for x in v.split(',') if x.strip()] for v in re.findall(r'vec!\[([0-9, ]+)\]', m.group(2))]
        flat = [b for v in out['values'] for b in v]
        out['bytes_hex'] = ''.join('%02x' % b for b in flat if 0 <= b < 256)
        q = subprocess.run(['cargo', 'kani', 'playback', '-Z', 'concrete-playback', '--', m.group(1)],
                           cwd=scratch, env=env, capture_output=True, text=True, errors="replace", timeout=900)
        o = q.stdout + q.stderr
        if re.search(r'test result: FAILED|panicked at', o):
            out['native_replay'] = 'reproduced: the generated test FAILS natively on the real code'
            pm = re.search(r'panicked at[^\n]*\n[^\n]*', o)
            out['detail'] = pm.group(0)[:400] if pm else ''
        elif re.search(r'test result: ok', o):
            out['native_replay'] = 'not reproduced natively (the test passes; the failure may depend on a stubbed intrinsic or a Kani-only check)'
        else:
            out['native_replay'] = 'error'
            out['detail'] = o[-800:]
    except Exception as e:   # noqa
        out['detail'] = 'playback error: %s' % e
    return out


def list_harnesses():
    hs = re.findall(r'#\[kani::proof\][^{]*?fn (\w+)\(', open(os.path.join(VERIF, 'kani/harnesses.rs')).read(), re.S)
    return hs + ['leaf_guard_shrinks_exactly', 'leaf_const_values']


def run(harnesses=None, jobs=8, timeout=1500, keep=False, extra_args=(), skip_neon=False):
    """skip_neon: the tree's neon.rs does not build against the emulation (it uses an intrinsic the emulation does not model):
    the NEON module and its three leaves are left out, reported as undecided, and every other leaf still runs"""
    t0 = time.time()
    scratch = tempfile.mkdtemp(prefix='httparse-kani-')
    res = dict(harnesses={}, error=None, wall_s=0, cmd='')
    try:
        subprocess.check_call(['rsync', '-a', '--exclude', 'target', '--exclude', '.git', '--exclude', 'fuzz', REPO + '/', scratch + '/'])
        for rel in APPEND:
            with open(os.path.join(scratch, rel), 'a') as f:
                f.write(append_text(rel, skip_neon))
        ht = open(os.path.join(VERIF, 'kani/harnesses.rs')).read()
        # VERIF_KANI_BOUNDS="RPOS_N=24,UTF8_N=6": larger bounds for the two BOUNDED std stand-ins (thorough tier)
        for kv in [x for x in os.environ.get('VERIF_KANI_BOUNDS', '').split(',') if '=' in x]:
            nm, val = kv.split('=')
            ht, n1 = re.subn(r'const %s: usize = \d+;\n#\[kani::proof\]\n#\[kani::unwind\(\d+\)\]' % nm,
                             'const %s: usize = %d;\n#[kani::proof]\n#[kani::unwind(%d)]' % (nm, int(val), int(val) + 2), ht)
            if n1 != 1:
                raise RuntimeError('bound marker %s not found in kani/harnesses.rs' % nm)
        if skip_neon:
            a_, b_ = ht.index('// ---------------------------------------------------------------------------------------------- NEON block leaves'), ht.index('// ---------------------------------------------------------------------------------------------- the cursor (src/iter.rs)')
            ht = ht[:a_] + ht[b_:]
        open(os.path.join(scratch, 'src/kani_harnesses.rs'), 'w').write(ht)
        open(os.path.join(scratch, 'src/kani_gen.rs'), 'w').write(gen_module(REPO))
        if not skip_neon:
            open(os.path.join(scratch, 'src/simd/neon_kani.rs'), 'w').write(neon_module(REPO))
            shutil.copy(os.path.join(VERIF, 'kani/neon_emu.rs'), os.path.join(scratch, 'src/simd/neon_emu.rs'))
        # scratch-only: let `cfg(kani)` pass the crate's own `deny(warnings)` when the playback test is compiled natively
        ct = os.path.join(scratch, 'Cargo.toml')
        t = open(ct).read()
        if "'cfg(kani)'" not in t:
            open(ct, 'w').write(t.replace("'cfg(httparse_simd)',", "'cfg(httparse_simd)',\n    'cfg(kani)',", 1))
        diff_guard(REPO, scratch)
        hs = harnesses or list_harnesses()
        neon_hs = [h for h in hs if h.startswith('leaf_neon_')]
        if skip_neon:
            hs = [h for h in hs if h not in neon_hs]
        cmd = ['cargo', 'kani', '-Z', 'stubbing', '-j', str(jobs), '--output-format', 'terse']
        for h in hs:
            cmd += ['--harness', h]
        cmd += list(extra_args)
        res['cmd'] = 'CARGO_NET_OFFLINE=true ' + ' '.join(cmd)
        env = dict(os.environ, CARGO_NET_OFFLINE='true')
        env.pop('RUSTUP_TOOLCHAIN', None)
        try:
            p = subprocess.run(cmd, cwd=scratch, env=env, capture_output=True, text=True, errors="replace", timeout=timeout)
            outp = p.stdout + '\n' + p.stderr
        except subprocess.TimeoutExpired as e:
            outp = (e.stdout or b'').decode(errors='replace') + '\n' + (e.stderr or b'').decode(errors='replace')
            res['error'] = 'timeout after %ds' % timeout
        res['raw_tail'] = outp[-6000:]
        # with -j the per-harness blocks interleave; the summary is authoritative
        failed = set(x.split('::')[-1] for x in re.findall(r'Verification failed for - ([\w:]+)', outp))
        m = re.search(r'Complete - (\d+) successfully verified harnesses, (\d+) failures, (\d+) total', outp)
        times = re.findall(r'Verification Time: ([0-9.]+)s', outp)
        res['solver_time_s'] = round(sum(float(x) for x in times), 2)
        res['checks_total'] = sum(int(x) for x in re.findall(r'\*\* \d+ of (\d+) failed', outp))
        blocks = bool(m)
        for h in hs:
            if not m or int(m.group(3)) != len(hs):
                st = 'missing'
            else:
                st = 'fail' if h in failed else 'pass'
                if h.endswith('_mustfail'):
                    st = 'pass' if st == 'fail' else 'fail'   # vacuity guard: the described state must be reachable
            res['harnesses'][h] = dict(status=st)
        if m and int(m.group(3)) != len(hs):
            res['error'] = 'harness count mismatch: ran %s, expected %d' % (m.group(3), len(hs))
        if not blocks and not res['error']:
            res['error'] = 'no harness output (build failure?)'
        # counterexamples: Kani's concrete playback for each failed harness, replayed NATIVELY on the real code of the scratch copy
        for h in [x for x in hs if res['harnesses'].get(x, {}).get('status') == 'fail' and not x.endswith('_mustfail')][:3]:
            res['harnesses'][h]['counterexample'] = playback(scratch, h, env)
    except (AnchorLost, RuntimeError, subprocess.CalledProcessError) as e:
        res['error'] = '%s: %s' % (type(e).__name__, e)
    finally:
        if keep:
            res['scratch'] = scratch
        else:
            shutil.rmtree(scratch, ignore_errors=True)
    res['wall_s'] = round(time.time() - t0, 1)
    if (not skip_neon and res.get('error') and 'no harness output' in str(res['error']) and re.search(r'neon_kani\.rs|neon_emu', res.get('raw_tail', ''))
            and (harnesses is None or any(not h.startswith('leaf_neon_') for h in harnesses))):
        r2 = run(harnesses, jobs, timeout, keep, extra_args, skip_neon=True)
        for h in (harnesses or list_harnesses()):
            if h.startswith('leaf_neon_'):
                r2['harnesses'][h] = dict(status='missing', detail='src/simd/neon.rs of this tree does not build against the emulation of core::arch::aarch64 (kani/neon_emu.rs): '
                                          + '; '.join(re.findall(r'error[^\n]*', res.get('raw_tail', ''))[:3])[:400])
        r2['neon_skipped'] = True
        r2['wall_s'] = round(time.time() - t0, 1)
        return r2
    return res


if __name__ == '__main__':
    keep = '--keep' in sys.argv
    hs = [a for a in sys.argv[1:] if not a.startswith('--')]
    r = run(hs or None, keep=keep)
    print(json.dumps(r, indent=1))
