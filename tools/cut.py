"""Item cutter: brace-matching, string/char/comment aware extraction of Rust items from real source text.

Nothing in here understands Rust beyond tokens needed to match braces: it never edits what it cuts.
"""
import re


class AnchorLost(Exception):
    """An item / anchor / rewrite site expected in /repo's source was not found (=> exit 2, never an alarm)."""


_CHAR = re.compile(r"b?'(\\x[0-9a-fA-F]{2}|\\u\{[0-9a-fA-F]+\}|\\.|[^\\'])'")


def skip_trivia(src, p):
    """if src[p:] starts a comment / string / char literal return the index just past it, else None"""
    if src.startswith('//', p):
        q = src.find('\n', p)
        return len(src) if q < 0 else q
    if src.startswith('/*', p):
        depth, q = 1, p + 2
        while depth and q < len(src):
            if src.startswith('/*', q):
                depth += 1; q += 2
            elif src.startswith('*/', q):
                depth -= 1; q += 2
            else:
                q += 1
        return q
    c = src[p]
    if c == '"' or (c == 'b' and src[p + 1:p + 2] == '"'):
        q = p + (2 if c == 'b' else 1)
        while src[q] != '"':
            if src[q] == '\\':
                q += 1
            q += 1
        return q + 1
    if c == 'r' and re.match(r'r#*"', src[p:]):
        m = re.match(r'r(#*)"', src[p:])
        end = '"' + m.group(1)
        q = src.index(end, p + len(m.group(0)))
        return q + len(end)
    if c == "'" or (c == 'b' and src[p + 1:p + 2] == "'"):
        m = _CHAR.match(src, p)
        if m:
            return m.end()
        return None  # a lifetime
    return None


def match_brace(src, j, open_='{', close='}'):
    """src[j] == open_  ->  index just past the matching close"""
    assert src[j] == open_, (src[j:j + 20], open_)
    depth, p, n = 0, j, len(src)
    while p < n:
        q = skip_trivia(src, p)
        if q is not None:
            p = q
            continue
        c = src[p]
        if c == open_:
            depth += 1
        elif c == close:
            depth -= 1
            if depth == 0:
                return p + 1
        p += 1
    raise AnchorLost('unbalanced braces')


def _extend_up(src, s):
    """extend a line-start offset upward over attribute / doc-comment / comment lines directly above"""
    while s > 0:
        ls = src.rfind('\n', 0, s - 1) + 1
        line = src[ls:s - 1]
        if line.strip() and re.match(r'\s*(#\[|#!\[|///|//)', line):
            s = ls
        else:
            break
    return s


def find_scope(src, header_regex):
    """(start,end) of the `{...}` block whose header matches header_regex (e.g. an impl block); returns the inner span"""
    m = re.search(header_regex, src, re.M)
    if not m:
        raise AnchorLost('scope not found: ' + header_regex)
    j = src.index('{', m.end() - 1)
    e = match_brace(src, j)
    return j + 1, e - 1


FN_RE = r'^[ \t]*(?:pub(?:\([a-z:]+\))?\s+)?(?:const\s+)?(?:unsafe\s+)?fn\s+%s\b'


def find_fn(src, name, lo=0, hi=None, with_attrs=True):
    """(start,end) offsets of `fn name` (incl. leading attrs/doc comments) inside src[lo:hi]"""
    hi = len(src) if hi is None else hi
    rx = re.compile(FN_RE % re.escape(name), re.M)
    m = rx.search(src, lo, hi)
    if not m:
        raise AnchorLost('fn not found: ' + name)
    if rx.search(src, m.end(), hi):
        # more than one in range: caller must narrow the scope
        raise AnchorLost('fn ambiguous in scope: ' + name)
    s = m.start()
    if with_attrs:
        s = _extend_up(src, s)
    # body brace: first '{' at paren/bracket depth 0 after the signature start
    p, depth = m.end(), 0
    while True:
        q = skip_trivia(src, p)
        if q is not None:
            p = q
            continue
        c = src[p]
        if c in '([':
            depth += 1
        elif c in ')]':
            depth -= 1
        elif c == '{' and depth == 0:
            break
        elif c == ';' and depth == 0:
            raise AnchorLost('fn has no body: ' + name)
        p += 1
    e = match_brace(src, p)
    return s, e


def get_fn(src, name, scope=None):
    lo, hi = (0, None) if scope is None else find_scope(src, scope)
    s, e = find_fn(src, name, lo, hi)
    return src[s:e]


def find_item(src, start_regex, lo=0, hi=None, terminator='brace'):
    """(start,end) of an item beginning at start_regex; terminator: 'brace' ({...}) or 'semi' (up to ; at depth 0)"""
    hi = len(src) if hi is None else hi
    m = re.compile(start_regex, re.M).search(src, lo, hi)
    if not m:
        raise AnchorLost('item not found: ' + start_regex)
    s = _extend_up(src, m.start())
    p, depth = m.end(), 0
    while p < hi:
        q = skip_trivia(src, p)
        if q is not None:
            p = q
            continue
        c = src[p]
        if c in '([':
            depth += 1
        elif c in ')]':
            depth -= 1
        elif c == '{' and depth == 0:
            if terminator == 'brace':
                return s, match_brace(src, p)
            p = match_brace(src, p)
            continue
        elif c == ';' and depth == 0:
            return s, p + 1
        p += 1
    raise AnchorLost('item unterminated: ' + start_regex)


def get_item(src, start_regex, terminator='brace', scope=None):
    lo, hi = (0, None) if scope is None else find_scope(src, scope)
    s, e = find_item(src, start_regex, lo, hi, terminator)
    return src[s:e]


def strip_attrs(text, names):
    """drop whole-line attributes `#[name...]` for the given attribute names (rule D2)"""
    out = []
    for line in text.split('\n'):
        m = re.match(r'\s*#\[(\w+(?:::\w+)*)', line)
        if m and m.group(1) in names and line.strip().endswith(']'):
            continue
        out.append(line)
    return '\n'.join(out)


def strip_doc_comments(text):
    return '\n'.join(l for l in text.split('\n') if not re.match(r'\s*///', l))


if __name__ == '__main__':
    import sys
    print(get_fn(open(sys.argv[1]).read(), sys.argv[2], sys.argv[3] if len(sys.argv) > 3 else None))
