#!/bin/bash
# Self-test (not a registered check): apply every seeded change to /repo, run the check of its property, revert; write seeded/RESULTS.txt
cd $(dirname $0)/..
out=${OUT:-seeded/RESULTS.txt}; : > $out.tmp
LIST=${@:-seeded/C*-*}
for d in $LIST; do
  sid=$(basename $d); pid=${sid%-*}
  r=$(LINES_MAX=14 tools/try_mutant.sh $PWD/$d/patch.diff $pid 2>&1)
  ex=$(echo "$r" | grep -a "exit=" | tail -1 | sed 's/.*exit=//')
  line=$(echo "$r" | grep -a "VIOLATION\|UNDECIDED\|OK prop" | head -1 | cut -c1-160)
  ob=$(echo "$r" | grep -a "failed obligation" | head -3 | sed 's/.*failed obligation: //' | paste -sd';')
  inp=$(echo "$r" | grep -a "failing input\|Kani counterexample" | head -1 | sed 's/.*(replayed natively on the real crate[^)]*): //' | cut -c1-120)
  echo "$sid exit=$ex | $line | obligations: $ob | input: $inp" >> $out.tmp
done
mv $out.tmp $out
echo DONE
