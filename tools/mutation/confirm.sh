#!/bin/bash
# usage: confirm.sh <ID> [n...]  -- re-confirms the mutants of one property in its own scratch worktree /tmp/mut/<ID>
id=$1; shift; ns=${@:-1 2 3}; wt=/tmp/mut/$id; cd $wt || exit 1
export CARGO_NET_OFFLINE=true
git checkout -q -- . ; git clean -fdq tests 2>/dev/null
for n in $ns; do
  d=/tmp/mut/out_$id/$n; [ -f $d/patch.diff ] || continue
  res="{\"id\":\"$id/$n\""
  if git apply $d/patch.diff 2>/dev/null; then res="$res,\"applies\":true"; else echo "$res,\"applies\":false}" > /tmp/mut/confirm_${id}_$n.json; continue; fi
  out=$(cargo test --offline 2>&1); rc=$?
  passed=$(echo "$out" | grep -E "^test result: ok" | sed -E 's/.* ([0-9]+) passed.*/\1/' | paste -sd+ | bc)
  res="$res,\"suite_rc\":$rc,\"suite_passed\":${passed:-0}"
  cp $d/demo.rs tests/demo_confirm.rs
  cargo test --offline --test demo_confirm >/tmp/mut/confirm_${id}_${n}_with.log 2>&1; with=$?
  git checkout -q -- .
  cargo test --offline --test demo_confirm >/tmp/mut/confirm_${id}_${n}_without.log 2>&1; without=$?
  rm -f tests/demo_confirm.rs
  res="$res,\"demo_with_patch_rc\":$with,\"demo_without_patch_rc\":$without}"
  echo "$res" > /tmp/mut/confirm_${id}_$n.json
done
git checkout -q -- . ; git clean -fdq tests 2>/dev/null
