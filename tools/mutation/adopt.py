#!/usr/bin/env python3
"""usage: adopt.py <ID> <round> [n...] -- after tools/mutation/confirm.sh: copy confirmed mutants of /tmp/mut/out_<ID>/<n> to seeded/<ID>-<k>/"""
import json, os, shutil, sys
V = os.path.dirname(os.path.dirname(os.path.dirname(os.path.abspath(__file__))))
pid, rnd = sys.argv[1], int(sys.argv[2])
ns = sys.argv[3:] or ['1', '2']
for n in ns:
    c = json.load(open('/tmp/mut/confirm_%s_%s.json' % (pid, n)))
    ok = c.get('applies') and c.get('suite_rc') == 0 and c.get('demo_with_patch_rc') not in (0, None) and c.get('demo_without_patch_rc') == 0
    if not ok:
        print('NOT CONFIRMED', c)
        continue
    k = 1
    while os.path.exists(os.path.join(V, 'seeded', '%s-%d' % (pid, k))):
        k += 1
    d = os.path.join(V, 'seeded', '%s-%d' % (pid, k))
    os.makedirs(d)
    src = '/tmp/mut/out_%s/%s' % (pid, n)
    shutil.copy(os.path.join(src, 'patch.diff'), d)
    shutil.copy(os.path.join(src, 'demo.rs'), d)
    m = json.load(open(os.path.join(src, 'meta.json')))
    m['round'] = rnd
    m['author'] = 'independent sub-agent given only the property text and a scratch worktree'
    m['confirmed_by_me'] = dict(what_i_ran=['git apply patch.diff (scratch worktree /tmp/mut/%s)' % pid, 'cargo test --offline  (existing suite, unedited)',
                                            'cp demo.rs tests/demo_confirm.rs && cargo test --offline --test demo_confirm  (with the patch)',
                                            'git checkout -- . && cargo test --offline --test demo_confirm  (without the patch)'],
                                applies=True, suite_exit=c['suite_rc'], suite_tests_passed=c['suite_passed'],
                                demo_exit_with_patch=c['demo_with_patch_rc'], demo_exit_without_patch=c['demo_without_patch_rc'])
    json.dump(m, open(os.path.join(d, 'meta.json'), 'w'), indent=1)
    print('adopted', d)
