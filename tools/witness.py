#!/usr/bin/env python3
"""Build and run the native witness tool (/verif/replay) against /repo's CURRENT working tree (public API only).

Used (a) to attach a replayable failing input to a violation the verifier reported, (b) to turn an UNDECIDED verdict
(anchor lost / unsupported construct / solver limit on a changed tree) into a violation when -- and only when -- a
concrete disagreement with the oracle's executable twin is found on the real crate, (c) for `./check --replay`.
It never makes a check pass.
"""
import json
import os
import shutil
import subprocess
import sys
import tempfile

VERIF = os.path.dirname(os.path.dirname(os.path.abspath(__file__)))
REPO = os.environ.get('VERIF_REPO', '/repo')


# scanner back ends reachable on this host by building the SAME working tree with different switches (build.rs / src/simd/mod.rs)
VARIANTS = {
    'default': {},                                                     # runtime detection (AVX2 on this host)
    'sse42': {'RUSTFLAGS': '-C target-feature=+sse4.2'},               # compile-time SSE4.2 forwarders, SSE4.2 block loop + SWAR tail
    'avx2ct': {'RUSTFLAGS': '-C target-feature=+avx2'},                # compile-time AVX2 forwarders
    'swar': {'CARGO_CFG_HTTPARSE_DISABLE_SIMD': '1'},                  # word-at-a-time scanners only
    # the NEON scanners on this x86-64 host: the snapshot's src/simd/neon.rs with its import of core::arch::aarch64 redirected to
    # the emulation /verif/kani/neon_emu.rs (rule N1), and src/simd/mod.rs REPLACED by one that selects `neon` unconditionally
    # (the cfg lattice itself is checked by tools/cfglattice.py).  Replay only: it can show a failing input, never a pass.
    'neon-emu': {'CARGO_CFG_HTTPARSE_DISABLE_SIMD': '1'},
}
NEON_MOD_RS = '''// written by /verif/tools/witness.py for the `neon-emu` replay build only
mod swar;
#[allow(dead_code, unused_imports, clippy::all)]
mod neon_emu;
#[allow(dead_code, clippy::all)]
mod neon;
pub use self::neon::*;
'''


def build(variant='default'):
    d = tempfile.mkdtemp(prefix='httparse-witness-')
    shutil.copytree(os.path.join(VERIF, 'replay', 'src'), os.path.join(d, 'src'))
    # the crate under test is a snapshot of /repo's working tree (so that concurrent edits cannot race the build)
    snap = os.path.join(d, 'crate')
    subprocess.check_call(['rsync', '-a', '--exclude', 'target', '--exclude', '.git', '--exclude', 'fuzz', '--exclude', 'benches', REPO + '/', snap + '/'])
    os.makedirs(os.path.join(snap, 'benches'), exist_ok=True)
    src_b = os.path.join(REPO, 'benches', 'parse.rs')
    if os.path.exists(src_b):
        shutil.copy(src_b, os.path.join(snap, 'benches', 'parse.rs'))
    if variant == 'neon-emu':
        npath = os.path.join(snap, 'src', 'simd', 'neon.rs')
        nt = open(npath).read()
        if nt.count('use core::arch::aarch64::*;') != 1:
            return d, None, 'src/simd/neon.rs: import of core::arch::aarch64 not found exactly once (rule N1)'
        open(npath, 'w').write(nt.replace('use core::arch::aarch64::*;', 'use super::neon_emu::*;'))
        shutil.copy(os.path.join(VERIF, 'kani', 'neon_emu.rs'), os.path.join(snap, 'src', 'simd', 'neon_emu.rs'))
        open(os.path.join(snap, 'src', 'simd', 'mod.rs'), 'w').write(NEON_MOD_RS)
    t = open(os.path.join(VERIF, 'replay', 'Cargo.toml.in')).read().replace('@REPO@', snap)
    open(os.path.join(d, 'Cargo.toml'), 'w').write(t)
    env = dict(os.environ, CARGO_NET_OFFLINE='true')
    env.pop('RUSTUP_TOOLCHAIN', None)
    env.pop('RUSTFLAGS', None)
    env.update(VARIANTS[variant])
    p = subprocess.run(['cargo', 'build', '--release', '--offline', '-q'], cwd=d, env=env, capture_output=True, text=True, errors="replace")
    exe = os.path.join(d, 'target', 'release', 'witness')
    if p.returncode != 0 or not os.path.exists(exe):
        return d, None, (p.stdout + p.stderr)[-3000:]
    return d, exe, ''


def literals(repo):
    """string and byte-string literals of the crate's non-test source text (each file up to its first #[cfg(test)] / #[test]),
    decoded, as hex lines: the dictionary of the witness search"""
    import re
    out = []
    srcdir = os.path.join(repo, 'src')
    for root, _, files in os.walk(srcdir):
        for f in sorted(files):
            if not f.endswith('.rs'):
                continue
            t = open(os.path.join(root, f), errors='replace').read()
            cut = [m.start() for m in re.finditer(r'#\[cfg\(test\)\]|#\[test\]', t)]
            if cut:
                t = t[:cut[0]]
            t = re.sub(r'//[^\n]*', '', t)
            for m in re.finditer(r'b?"((?:[^"\\\n]|\\.)*)"', t):
                raw, bs, i = m.group(1), bytearray(), 0
                while i < len(raw):
                    c = raw[i]
                    if c == '\\' and i + 1 < len(raw):
                        n = raw[i + 1]
                        if n == 'x' and i + 3 < len(raw):
                            try:
                                bs.append(int(raw[i + 2:i + 4], 16)); i += 4; continue
                            except ValueError:
                                pass
                        bs.append({'n': 10, 'r': 13, 't': 9, '0': 0, '\\': 92, '"': 34, "'": 39}.get(n, ord(n) & 0xff)); i += 2; continue
                    bs.extend(c.encode('utf-8')); i += 1
                if 2 <= len(bs) <= 200 and bytes(bs) not in out:
                    out.append(bytes(bs))
    return out


def _search_one(variant, families, deep=0):
    d, exe, err = build(variant)
    out = dict(findings=[], error=None, evaluations=0)
    try:
        if exe is None:
            out['error'] = 'witness build failed (%s; the changed crate may not compile against the public API):\n' % variant + err
            return out
        for fam in families:
            try:
                dpath = os.path.join(d, 'dict.txt')
                if not os.path.exists(dpath):
                    open(dpath, 'w').write('\n'.join(x.hex() for x in literals(REPO)) + '\n')
                p = subprocess.run([exe, 'search', fam], capture_output=True, text=True, errors="replace", timeout=(900 if not deep else 3000), env=dict(os.environ, WITNESS_DEEP=str(deep), WITNESS_DICT=dpath))
            except subprocess.TimeoutExpired:
                out['error'] = 'witness search timed out (%s)' % variant
                continue
            for l in p.stdout.split('\n'):
                if l.startswith('{'):
                    try:
                        out['findings'].append(dict(json.loads(l), backend=variant))
                    except ValueError:
                        # never drop a finding silently: keep what can be salvaged and say so
                        import re as _re
                        g = lambda k: (_re.search(r'"%s":"([^"]*)"' % k, l) or [None, ''])[1]
                        gi = lambda k: int((_re.search(r'"%s":(\d+)' % k, l) or [None, '0'])[1])
                        out['findings'].append(dict(stage=g('stage'), gen=g('gen'), family=g('family'), oracle=g('oracle'), entry=g('entry'), cfg=gi('cfg'), cap=gi('cap'),
                                                    input_hex=g('input_hex'), input=g('input'), real='(unparseable finding line) ' + l[:300], expected='', backend=variant))
            if fam == 'guard' and p.returncode < 0 or (fam == 'guard' and p.returncode in (139, 138, 135)):
                # death by signal while parsing at the end of a mapping whose next page is unmapped: the last announced input
                tries = [l for l in p.stdout.split('\n') if l.startswith('GUARD-TRY ')]
                if tries:
                    _, kind, cfgb, hx = (tries[-1].split(' ') + [''])[:4]
                    famn = {'0': 'request', '1': 'response', '2': 'headers', '3': 'chunk'}.get(kind, 'request')
                    data = bytes.fromhex(hx)
                    out['findings'].append(dict(stage='any', gen='panic', family=famn, oracle='panic', entry=famn + ' (buffer placed at the end of a mapping, next page PROT_NONE)',
                                                cfg=int(cfgb or 0), cap=3, input_hex=hx, input=''.join(chr(b) if 32 <= b < 127 and b != 92 else '\\x%02x' % b for b in data),
                                                real='SIGNAL %d: the process died reading past the end of the buffer (guard page)' % (-p.returncode if p.returncode < 0 else p.returncode - 128),
                                                expected='returns normally, reads no byte outside the buffer', backend=variant, guard=True))
                    out['evaluations'] += len(tries)
                continue
            for l in p.stderr.split('\n'):
                if l.startswith('evaluations='):
                    out['evaluations'] += int(l.split()[0].split('=')[1])
            if p.returncode not in (0, 1):
                # a panic / abort inside the real crate: the panic hook has printed the input as a finding (gen=panic)
                out['crashed'] = 'witness process ended abnormally on family %s, back end %s (exit %d): %s' % (fam, variant, p.returncode, p.stderr[-800:])
                if not any(f.get('gen') == 'panic' for f in out['findings']):
                    out['error'] = out['crashed']
    finally:
        shutil.rmtree(d, ignore_errors=True)
    return out


def search(families=('all',), variants=('default', 'sse42', 'swar', 'avx2ct', 'neon-emu'), deep=0):
    """the same search on the same working tree built for each scanner back end; every finding carries `backend`.
    A finding that some back ends produce and others do not is additionally marked backend_dependent (C13)."""
    import concurrent.futures
    with concurrent.futures.ThreadPoolExecutor(max_workers=len(variants)) as ex:
        rs = dict(zip(variants, ex.map(lambda v: _search_one(v, families, deep), variants)))
    out = dict(findings=[], error=None, evaluations=0, per_backend={}, deep=deep)
    seen = {}
    for v in variants:
        r = rs[v]
        out['evaluations'] += r['evaluations']
        out['per_backend'][v] = dict(evaluations=r['evaluations'], findings=len(r['findings']), error=r['error'])
        if r.get('error') and not out['error'] and (v == 'default' or 'build failed' not in r['error']):
            # a non-default back-end build that does not compile is a C13 matter (tools/builds.py reports it); it does not block the others
            out['error'] = r['error']
        if r.get('crashed'):
            out['crashed'] = r['crashed']
        for f in r['findings']:
            k = (f.get('family'), f.get('cfg'), f.get('cap'), f.get('entry'), f.get('input_hex'), f.get('real'))
            if k in seen:
                seen[k]['backends'].append(v)
            else:
                f['backends'] = [v]
                seen[k] = f
                out['findings'].append(f)
    ok = [v for v in variants if not rs[v].get('error')]
    for f in out['findings']:
        f['backend_dependent'] = len(ok) > 1 and set(f['backends']) != set(ok) and not any(rs[v].get('crashed') for v in ok)
    # default-back-end findings first (they replay without special switches)
    out['findings'].sort(key=lambda f: (0 if 'default' in f['backends'] else 1))
    return out


def timing():
    """C20 bounded stand-in: time ratios 64 KiB / 4 KiB of adversarial families on the real crate"""
    import re
    d, exe, err = build()
    out = dict(families=[], error=None)
    try:
        if exe is None:
            out['error'] = 'witness build failed:\n' + err
            return out
        p = subprocess.run([exe, 'timing'], capture_output=True, text=True, errors="replace", timeout=600)
        flagged = set()
        for l in p.stdout.split('\n'):
            if l.startswith('{'):
                try:
                    flagged.add(json.loads(l)['entry'])
                except ValueError:
                    pass
        for m in re.finditer(r'timing family=(\S+) ratio=([0-9.]+) t64k=([0-9.]+)s', p.stderr):
            out['families'].append(dict(family=m.group(1), ratio=float(m.group(2)), t64k_s=float(m.group(3)), status='fail' if m.group(1) in flagged else 'pass'))
        if p.returncode not in (0, 1):
            out['error'] = 'timing run ended abnormally (exit %d): %s' % (p.returncode, p.stderr[-600:])
    except subprocess.TimeoutExpired:
        out['error'] = 'timing run timed out (itself a sign of super-linear work)'
    finally:
        shutil.rmtree(d, ignore_errors=True)
    return out


def replay_guard(family, cfg, hexs, variant='default'):
    """re-run a guard-page finding: the input parsed in place in front of an unmapped page"""
    d, exe, err = build(variant)
    try:
        if exe is None:
            return 2, 'witness build failed:\n' + err
        kind = {'request': '0', 'response': '1', 'headers': '2', 'chunk': '3'}.get(family, '0')
        p = subprocess.run([exe, 'guardreplay', kind, str(cfg), hexs], capture_output=True, text=True, errors="replace", timeout=120)
        if p.returncode < 0 or p.returncode >= 128:
            return 1, 'the process died by signal %d while parsing this input in front of an unmapped page' % (-p.returncode if p.returncode < 0 else p.returncode - 128)
        return (0 if p.returncode == 0 else 1), (p.stdout + p.stderr)[-1500:]
    finally:
        shutil.rmtree(d, ignore_errors=True)


def replay(family, cfg, cap, hexs, variant='default', history=None):
    d, exe, err = build(variant if variant in VARIANTS else 'default')
    try:
        if exe is None:
            return 2, 'witness build failed:\n' + err
        extra = [history[0] or '', str(history[1]), str(history[2])] if history else []
        p = subprocess.run([exe, 'replay', family, str(cfg), str(cap), hexs] + extra, capture_output=True, text=True, errors="replace", timeout=120)
        return p.returncode, p.stdout + p.stderr
    finally:
        shutil.rmtree(d, ignore_errors=True)


HDR_BITS_REQ = 16 | 64
HDR_BITS_RESP = 1 | 2 | 16 | 32


def _outcome(txt):
    import re
    m = re.search(r'outcome: (\w+)', txt) or re.search(r'\b(Complete|Partial|Err|Invalid)\b', txt) or re.match(r'\s*(?:Ok\()?(\w+)', txt)
    return m.group(1) if m else ''


def relevant(prop, f):
    """is this concrete disagreement a violation of `prop`?  (family, stage, oracle parts, config bits)"""
    ro, eo = _outcome(f.get('real', '')), _outcome(f.get('expected', ''))
    if f.get('family') == 'chunk' and f.get('oracle') == 'parse_chunk_size':
        f = dict(f, oracle='status')          # a chunk-size disagreement is a status/offset/value disagreement
    if f.get('family') == 'headers' and f.get('oracle') == 'parse_headers':
        # parse_headers findings carry no part list: derive it from the two outcomes
        import re as _re
        rk, ek = _re.search(r'(Complete|Partial|Err)', f.get('real', '')), _re.search(r'(Complete|Partial|Err)', f.get('expected', ''))
        rk, ek = (rk.group(1) if rk else ''), (ek.group(1) if ek else '')
        if rk == 'Err' and ek == 'Err':
            f = dict(f, oracle='error-kind')
        elif rk == 'Complete' and ek == 'Complete':
            rn, en = _re.search(r'Complete\((\d+)', f.get('real', '')), _re.search(r'(\d+)\)\s*$', f.get('expected', ''))
            f = dict(f, oracle='headers' if (rn and en and rn.group(1) == en.group(1)) else 'status+headers')
        else:
            f = dict(f, oracle='status')
    accepts_forbidden = ('status' in f.get('oracle', '').split('+')) and eo in ('Err', 'Invalid') and ro not in ('Err',)
    fam, stage, orc, cfg = f.get('family'), f.get('stage'), f.get('oracle', ''), f.get('cfg', 0)
    hdr_opts = cfg & (HDR_BITS_REQ if fam == 'request' else HDR_BITS_RESP if fam == 'response' else 0)
    parts = orc.split('+')
    if f.get('gen') == 'panic':
        # the real crate panicked / aborted on this input (debug assertions and UB precondition checks are on in the replay build)
        # ... a panic inside a scanner file is also the scanner not stopping where C12 says it stops
        return prop in ('C01', 'C13') or (prop == 'C09' and fam == 'chunk') or (prop == 'C12' and 'src/simd/' in f.get('real', ''))
    if fam == 'config':
        return prop in ('C14', 'C15')
    if prop == 'C19':
        return fam == 'alloc'
    if fam == 'alloc':
        return False
    if prop == 'C09':
        return fam == 'chunk'
    if prop == 'C06':
        return fam == 'request' and (stage == 'startline' or any(x in parts for x in ('method', 'path', 'version', 'invalid-utf8'))) and parts != ['error-kind']
    if prop == 'C07':
        return fam == 'response' and (stage == 'startline' or any(x in parts for x in ('version', 'code', 'reason', 'invalid-utf8'))) and parts != ['error-kind']
    if prop == 'C08':
        return stage == 'headers' and hdr_opts == 0 and parts != ['error-kind']
    if prop == 'C14':
        return stage == 'headers' and hdr_opts != 0
    if prop == 'C10':
        return 'error-kind' in parts or 'TooManyHeaders' in f.get('real', '') + f.get('expected', '')
    if prop == 'C12':
        # (buffer-end: a field cut off by the end of the buffer -- the scanner did not stop at the end of the buffer as C12 says it does)
        return f.get('gen') in ('lane-sweep', 'long-sweep', 'stride-pairs', 'buffer-end') or accepts_forbidden
    if prop == 'C05':
        # a byte the grammar forbids was accepted (or not yet rejected), or a reported field differs
        return accepts_forbidden or f.get('gen') in ('lane-sweep', 'long-sweep', 'stride-pairs') or any(x in parts for x in ('method', 'path', 'reason', 'headers', 'code', 'version', 'invalid-utf8'))
    if prop == 'C17':
        return any(x in parts for x in ('headers-len-restore', 'untouched-slots')) or 'TooManyHeaders' in f.get('real', '') + f.get('expected', '') or f.get('gen') == 'capacity'
    if prop == 'C03':
        return 'status' in parts and ('Complete' in f.get('real', '') or 'Complete' in f.get('expected', ''))
    if 'stability' in parts:
        return prop == 'C02'
    if prop == 'C02' and ro == 'Partial' and eo == 'Partial' and any(x in parts for x in ('method', 'path', 'version', 'code', 'reason')):
        return True          # a start-line field reported alongside Partial that is not the one the final result will have
    if prop in ('C02', 'C11'):
        # a status disagreement where one side says Partial: Partial is returned although the oracle already decides, or vice versa
        return 'status' in parts and ((ro == 'Partial') != (eo == 'Partial'))
    if prop == 'C04':
        return any(x in parts for x in ('method', 'path', 'reason', 'headers'))
    if 'history' in parts:
        return prop in ('C18', 'C16')
    if prop == 'C16':
        return True
    if prop == 'C13':
        # the result depends on the scanner back end the tree was built for, or comes from a block/phase sweep, or is the chunk-size profile branch
        return bool(f.get('backend_dependent')) or fam == 'chunk' or f.get('gen') in ('lane-sweep', 'long-sweep', 'stride-pairs')
    if prop == 'C18':
        return 'history' in parts or 'headers-len-restore' in parts
    if prop == 'C15':
        # an option of the OTHER message kind changed something, or a buffer the default options accept is read differently under options
        other_kind = (fam == 'request' and cfg & (1 | 2 | 8 | 32)) or (fam == 'response' and cfg & (4 | 64))
        return bool(other_kind) or (cfg != 0 and eo == 'Complete' and parts != ['error-kind'])
    return False


if __name__ == '__main__':
    r = search(sys.argv[1:] or ('all',))
    print(json.dumps(r, indent=1)[:6000])
