#!/usr/bin/env python3
"""C13, clause "every supported combination of build switches compiles" (stand-in on this host, NOT counted as proved):
`cargo check --lib` of a snapshot of /repo's working tree for all 32 combinations
    std feature on/off  x  CARGO_CFG_HTTPARSE_DISABLE_SIMD 0/1  x  CARGO_CFG_HTTPARSE_DISABLE_SIMD_COMPILETIME 0/1
    x  target features {none, +sse4.2, +avx2, +sse4.2,+avx2}
on the host target (x86_64).  The z3 lattice check (tools/cfglattice.py) covers every assignment of the cfg atoms abstractly,
including the architectures this host cannot build for; this run confirms the x86_64 points with the real compiler.
"""
import concurrent.futures
import itertools
import json
import os
import shutil
import subprocess
import sys
import tempfile

REPO = os.environ.get('VERIF_REPO', '/repo')
FEATURES = {'none': '', 'sse4.2': '-C target-feature=+sse4.2', 'avx2': '-C target-feature=+avx2', 'sse4.2+avx2': '-C target-feature=+sse4.2,+avx2'}


def run():
    res = dict(checks=[], error=None)
    tmp = tempfile.mkdtemp(prefix='httparse-builds-')
    try:
        snap = os.path.join(tmp, 'crate')
        shutil.copytree(REPO, snap, ignore=shutil.ignore_patterns('target', '.git', 'fuzz'))
        # both profiles: `cfg(debug_assertions)` code differs between them (C13: debug and release; C19: the no_std build in either)
        combos = list(itertools.product((True, False), (False, True), (False, True), FEATURES, ('dev', 'release')))

        def one(c):
            std, nosimd, noct, feat, prof = c
            name = 'std=%s,disable_simd=%d,disable_simd_compiletime=%d,target_feature=%s%s' % ('on' if std else 'off', nosimd, noct, feat, '' if prof == 'dev' else ',profile=release')
            env = dict(os.environ, CARGO_NET_OFFLINE='true', CARGO_TARGET_DIR=os.path.join(tmp, 't%d' % combos.index(c)))
            for k in ('RUSTFLAGS', 'CARGO_CFG_HTTPARSE_DISABLE_SIMD', 'CARGO_CFG_HTTPARSE_DISABLE_SIMD_COMPILETIME', 'RUSTUP_TOOLCHAIN'):
                env.pop(k, None)
            if FEATURES[feat]:
                env['RUSTFLAGS'] = FEATURES[feat]
            if nosimd:
                env['CARGO_CFG_HTTPARSE_DISABLE_SIMD'] = '1'
            if noct:
                env['CARGO_CFG_HTTPARSE_DISABLE_SIMD_COMPILETIME'] = '1'
            cmd = ['cargo', 'check', '--lib', '--offline', '--quiet'] + ([] if std else ['--no-default-features']) + ([] if prof == 'dev' else ['--release'])
            p = subprocess.run(cmd, cwd=snap, env=env, capture_output=True, text=True, errors="replace")
            errs = [l for l in p.stderr.split('\n') if l.startswith('error')]
            return dict(obligation='build:' + name, status='pass' if p.returncode == 0 else 'fail', detail='' if p.returncode == 0 else ('; '.join(errs[:4]) or p.stderr[-600:]),
                        cmd=' '.join(('%s=%s' % (k, env[k]) for k in ('RUSTFLAGS', 'CARGO_CFG_HTTPARSE_DISABLE_SIMD', 'CARGO_CFG_HTTPARSE_DISABLE_SIMD_COMPILETIME') if k in env)) + ' ' + ' '.join(cmd))
        with concurrent.futures.ThreadPoolExecutor(max_workers=int(os.environ.get('VERIF_JOBS', '8'))) as ex:
            res['checks'] = list(ex.map(one, combos))
    except Exception as e:   # noqa
        res['error'] = 'builds: %s' % e
    finally:
        shutil.rmtree(tmp, ignore_errors=True)
    return res


if __name__ == '__main__':
    r = run()
    for c in r['checks']:
        print(c['status'], c['obligation'], c['detail'][:200])
    print(r['error'])
    sys.exit(0 if not r['error'] and all(c['status'] == 'pass' for c in r['checks']) else 1)
