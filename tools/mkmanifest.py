#!/usr/bin/env python3
"""Write MANIFEST.json from contracts/properties.json (claimed properties) -- keeps the manifest in step with the checks."""
import json, os
V = os.path.dirname(os.path.dirname(os.path.abspath(__file__)))
meta = json.load(open(os.path.join(V, 'contracts', 'properties.json')))
props = [json.loads(l) for l in open(os.path.join(V, 'properties.jsonl')) if l.strip()]
checks, na = [], []
for p in props:
    pid = p['id']
    m = meta.get(pid)
    if not m or m.get('not_applicable'):
        na.append(dict(property_id=pid, reason=(m or {}).get('not_applicable', 'check not built yet in this session (see DESIGN.md section 5 for the plan)')))
        continue
    checks.append(dict(
        property_id=pid,
        quick_cmd='./check %s --tier quick' % pid,
        thorough_cmd='./check %s --tier thorough' % pid,
        evidence_file='evidence/%s.json' % pid,
        replay_cmd_template='./check --replay {path}',
        engine='contracts',
        level_claimed=dict(category=m.get('level', 'proof'), text=m['claim'], design_ref=m.get('design_ref', 'DESIGN.md section 5, ' + pid)),
        level_note=m['note'],
        technique=m.get('technique', 'contract-based deductive verification: Verus (requires/ensures/invariants on the real function text, extracted every run) + Kani leaf contracts'),
    ))
man = dict(
    version=1,
    setup_cmd='python3 tools/setup_check.py',
    hooks=dict(guard='httparse_verif (none needed: no hook commit in /repo)',
               enable='no source hooks: private leaves are reached through `#[cfg(kani)]` accessor lines APPENDED to a scratch copy of /repo at run time (tools/kani_run.py, diff-guarded); the Verus input is cut from /repo/src on every run (tools/gen.py)',
               baseline_off_cmd='cd /repo && cargo test --workspace --no-fail-fast --offline',
               source_commits=[], add_only=True),
    engines=[dict(name='contracts', path='check', serves_properties=[c['property_id'] for c in checks],
                  kind_free_text='generator (tools/gen.py) + Verus 0.2026.09.13 on the extracted real functions + Kani 0.68 leaf harnesses (tools/kani_run.py); one shared engine run, cached by SHA-256 of all inputs')],
    checks=checks,
    not_applicable=na,
    notes='Exit 2 from a check means undecided (machinery), never a violation. known_findings.txt lists findings/fixes. See DESIGN.md.',
)
json.dump(man, open(os.path.join(V, 'MANIFEST.json'), 'w'), indent=1)
print('claimed', len(checks), 'not_applicable', len(na))
