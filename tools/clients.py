#!/usr/bin/env python3
"""C04, static half (labelled stand-in, NOT counted as proved): the lifetime contract of the public signatures.

The property's own wording: "forall safe client programs: those that would let a field outlive or alias-mutate its
buffer/array are rejected by the compiler (checked on a corpus of minimal escaping programs per field and entry point,
plus usage patterns that must keep compiling)".  Verus and Kani cannot state this (it quantifies over client programs and
is decided by the signatures alone, which the crate's raw-pointer code launders internally).  The checker that decides one
such program is rustc's borrow checker, which is modular in exactly the contract sense: the client is checked against the
callee's SIGNATURE, never its body.  This tool

  * builds /repo's current working tree as an rlib (scratch copy, removed afterwards),
  * generates the corpus below: for every entry point x field x escape kind one ESCAPE program and its CONTROL twin that
    differs only in where the field is used (the control must compile, so a rejection of the escape program is caused by
    the escape and nothing else),
  * asks rustc for a verdict on each (metadata only, in parallel).

Obligation `clients::<entry>/<field>/<kind>`:
  pass       control accepted, escape rejected with a borrow/lifetime error
  fail       control accepted, escape ACCEPTED  -> the program is the witness (replay = its text)
  undecided  control rejected, or escape rejected for a reason that is not a borrow/lifetime error (API changed)
The corpus is finite: a verdict covers the listed programs, not all programs.
"""
import concurrent.futures
import json
import os
import re
import shutil
import subprocess
import sys
import tempfile

REPO = os.environ.get('VERIF_REPO', '/repo')
BORROW = {'E0597', 'E0506', 'E0499', 'E0502', 'E0505', 'E0515', 'E0716', 'E0521', 'E0503', 'E0713', 'E0712', 'E0501', 'E0310', 'E0621', 'E0623', 'E0495', 'E0700'}

HEAD = '''#![allow(unused)]
extern crate httparse;
use httparse::{Header, ParserConfig, Request, Response, EMPTY_HEADER};
use std::mem::MaybeUninit;
const REQ: &[u8] = b"GET /p HTTP/1.1\\r\\nHost: a\\r\\n\\r\\n";
const RES: &[u8] = b"HTTP/1.1 200 OK\\r\\nHost: a\\r\\n\\r\\n";
'''

# entry -> (value kind, message const, call text with BUF / UH placeholders, needs uninit array)
ENTRIES = {
    'Request::parse': ('req', 'REQ', 'let _ = v.parse(BUF);', False),
    'Request::parse_with_uninit_headers': ('req', 'REQ', 'let _ = v.parse_with_uninit_headers(BUF, UH);', True),
    'ParserConfig::parse_request': ('req', 'REQ', 'let _ = ParserConfig::default().parse_request(&mut v, BUF);', False),
    'ParserConfig::parse_request_with_uninit_headers': ('req', 'REQ', 'let _ = ParserConfig::default().parse_request_with_uninit_headers(&mut v, BUF, UH);', True),
    'Response::parse': ('res', 'RES', 'let _ = v.parse(BUF);', False),
    'ParserConfig::parse_response': ('res', 'RES', 'let _ = ParserConfig::default().parse_response(&mut v, BUF);', False),
    'ParserConfig::parse_response_with_uninit_headers': ('res', 'RES', 'let _ = ParserConfig::default().parse_response_with_uninit_headers(&mut v, BUF, UH);', True),
}
FIELDS = {
    'req': {'method': 'v.method.map(|s| s.len()).unwrap_or(0)', 'path': 'v.path.map(|s| s.len()).unwrap_or(0)',
            'header.name': 'v.headers.get(0).map(|h| h.name.len()).unwrap_or(0)', 'header.value': 'v.headers.get(0).map(|h| h.value.len()).unwrap_or(0)'},
    'res': {'reason': 'v.reason.map(|s| s.len()).unwrap_or(0)',
            'header.name': 'v.headers.get(0).map(|h| h.name.len()).unwrap_or(0)', 'header.value': 'v.headers.get(0).map(|h| h.value.len()).unwrap_or(0)'},
}
NEW = {'req': 'Request::new', 'res': 'Response::new'}


def corpus():
    """-> [(name, control_text, escape_text)]"""
    out = []

    def add(name, body_control, body_escape, sig='pub fn client() -> usize'):
        out.append((name, HEAD + sig + ' {\n' + body_control + '}\n', HEAD + sig + ' {\n' + body_escape + '}\n'))

    for entry, (kind, msg, call, uninit) in ENTRIES.items():
        new = NEW[kind]
        arr = '    let mut uh: [MaybeUninit<Header>; 4] = [MaybeUninit::uninit(); 4];\n    let mut v = %s(&mut []);\n' % new if uninit else \
              '    let mut hs = [EMPTY_HEADER; 4];\n    let mut v = %s(&mut hs);\n' % new
        c = call.replace('BUF', '&buf').replace('UH', '&mut uh')
        for field, use in FIELDS[kind].items():
            # (a) the buffer goes out of scope while the field is still used
            pre = arr + '    let n;\n    {\n        let buf: Vec<u8> = %s.to_vec();\n        %s\n' % (msg, c)
            add('%s/%s/buffer-dropped' % (entry, field),
                pre + '        n = %s;\n    }\n    n\n' % use,
                pre + '    }\n    n = %s;\n    n\n' % use)
            # (b) the buffer is overwritten while the field is still used
            pre = arr + '    let mut buf: Vec<u8> = %s.to_vec();\n    %s\n' % (msg, c)
            add('%s/%s/buffer-mutated' % (entry, field),
                pre + '    let n = %s;\n    buf[0] = b\'X\';\n    n\n' % use,
                pre + '    buf[0] = b\'X\';\n    let n = %s;\n    n\n' % use)
            # (c) the field is returned out of the function that owns the buffer
            if field in ('method', 'path', 'reason'):
                pre = '    let buf: Vec<u8> = %s.to_vec();\n' % msg + arr + '    %s\n' % c
                add('%s/%s/returned-past-buffer' % (entry, field),
                    pre + '    let _n = %s;\n    ""\n' % use,
                    pre + '    v.%s.unwrap_or("")\n' % field, sig="pub fn client() -> &'static str")
        # (d) the header array goes away / is overwritten while v.headers is still used
        if uninit:
            pre = '    let buf: Vec<u8> = %s.to_vec();\n    let mut v = %s(&mut []);\n    let n;\n    {\n        let mut uh: [MaybeUninit<Header>; 4] = [MaybeUninit::uninit(); 4];\n        %s\n' % (msg, new, c)
            add('%s/headers/array-dropped' % entry,
                pre + '        n = v.headers.len();\n    }\n    n\n',
                pre + '    }\n    n = v.headers.len();\n    n\n')
            pre = '    let buf: Vec<u8> = %s.to_vec();\n    let mut uh: [MaybeUninit<Header>; 4] = [MaybeUninit::uninit(); 4];\n    let mut v = %s(&mut []);\n    %s\n' % (msg, new, c)
            add('%s/headers/array-overwritten' % entry,
                pre + '    let n = v.headers.len();\n    uh[0] = MaybeUninit::uninit();\n    n\n',
                pre + '    uh[0] = MaybeUninit::uninit();\n    let n = v.headers.len();\n    n\n')
            add('%s/header.name/array-overwritten' % entry,
                pre + '    let n = v.headers.get(0).map(|h| h.name.len()).unwrap_or(0);\n    uh[0] = MaybeUninit::uninit();\n    n\n',
                pre + '    uh[0] = MaybeUninit::uninit();\n    let n = v.headers.get(0).map(|h| h.name.len()).unwrap_or(0);\n    n\n')
        else:
            pre = '    let buf: Vec<u8> = %s.to_vec();\n    let mut hs = [EMPTY_HEADER; 4];\n    let mut v = %s(&mut hs);\n    %s\n' % (msg, new, c)
            add('%s/headers/array-overwritten' % entry,
                pre + '    let n = v.headers.len();\n    hs[0] = EMPTY_HEADER;\n    n\n',
                pre + '    hs[0] = EMPTY_HEADER;\n    let n = v.headers.len();\n    n\n')
            # (e) the caller's array keeps Header<'buf> values: reading them after the buffer is gone must be rejected
            pre = '    let mut hs = [EMPTY_HEADER; 4];\n    let n;\n    {\n        let buf: Vec<u8> = %s.to_vec();\n        let mut v = %s(&mut hs);\n        %s\n' % (msg, new, c)
            add('%s/array-element/buffer-dropped' % entry,
                pre + '        n = hs[0].name.len() + hs[0].value.len();\n    }\n    n\n',
                pre + '    }\n    n = hs[0].name.len() + hs[0].value.len();\n    n\n')
    # the constructors: the value cannot outlive the array it was built on
    for kind, new in NEW.items():
        add('%s/headers/array-dropped' % new,
            '    let mut hs = [EMPTY_HEADER; 4];\n    let v = { %s(&mut hs) };\n    v.headers.len()\n' % new,
            '    let v = { let mut hs = [EMPTY_HEADER; 4]; %s(&mut hs) };\n    v.headers.len()\n' % new)
    # ---- parse_headers
    ph = '    let mut hs = [EMPTY_HEADER; 4];\n'
    pre = ph + '    let n;\n    {\n        let buf: Vec<u8> = b"Host: a\\r\\n\\r\\n".to_vec();\n        let _ = httparse::parse_headers(&buf, &mut hs);\n'
    add('parse_headers/array-element/buffer-dropped',
        pre + '        n = hs[0].name.len() + hs[0].value.len();\n    }\n    n\n',
        pre + '    }\n    n = hs[0].name.len() + hs[0].value.len();\n    n\n')
    pre = ph + '    let n;\n    {\n        let buf: Vec<u8> = b"Host: a\\r\\n\\r\\n".to_vec();\n        let r = httparse::parse_headers(&buf, &mut hs);\n'
    add('parse_headers/returned-slice/buffer-dropped',
        pre + '        n = match r { Ok(httparse::Status::Complete((_, h))) => h.len(), _ => 0 };\n    }\n    n\n',
        '    let mut hs = [EMPTY_HEADER; 4];\n    let r;\n    {\n        let buf: Vec<u8> = b"Host: a\\r\\n\\r\\n".to_vec();\n        r = httparse::parse_headers(&buf, &mut hs);\n    }\n'
        '    match r { Ok(httparse::Status::Complete((_, h))) => h.get(0).map(|x| x.value.len()).unwrap_or(0), _ => 0 }\n')
    pre = ph + '    let mut buf: Vec<u8> = b"Host: a\\r\\n\\r\\n".to_vec();\n    let _ = httparse::parse_headers(&buf, &mut hs);\n'
    add('parse_headers/array-element/buffer-mutated',
        pre + '    let n = hs[0].value.len();\n    buf[0] = b\'X\';\n    n\n',
        pre + '    buf[0] = b\'X\';\n    let n = hs[0].value.len();\n    n\n')
    pre = ph + '    let buf: Vec<u8> = b"Host: a\\r\\n\\r\\n".to_vec();\n    let r = httparse::parse_headers(&buf, &mut hs);\n'
    add('parse_headers/returned-slice/array-overwritten',
        pre + '    let n = match r { Ok(httparse::Status::Complete((_, h))) => h.len(), _ => 0 };\n    hs[0] = EMPTY_HEADER;\n    n\n',
        pre + '    hs[0] = EMPTY_HEADER;\n    let n = match r { Ok(httparse::Status::Complete((_, h))) => h.len(), _ => 0 };\n    n\n')
    add('parse_headers/array-element/returned-as-static',
        ph + '    let buf: Vec<u8> = b"Host: a\\r\\n\\r\\n".to_vec();\n    let _ = httparse::parse_headers(&buf, &mut hs);\n    let _n = hs[0].name.len();\n    ""\n',
        ph + '    let buf: Vec<u8> = b"Host: a\\r\\n\\r\\n".to_vec();\n    let _ = httparse::parse_headers(&buf, &mut hs);\n    hs[0].name\n', sig="pub fn client() -> &'static str")
    # ---- the doc(hidden) cursor API: slices handed out by Bytes live as long as the buffer given to Bytes::new
    for fn in ('parse_method', 'parse_uri'):
        pre = '    let n;\n    {\n        let buf: Vec<u8> = REQ.to_vec();\n        let mut b = httparse::_benchable::Bytes::new(&buf);\n        let r = httparse::_benchable::%s(&mut b);\n' % fn
        add('_benchable::%s/result/buffer-dropped' % fn,
            pre + '        n = match r { Ok(httparse::Status::Complete(s)) => s.len(), _ => 0 };\n    }\n    n\n',
            '    let r;\n    {\n        let buf: Vec<u8> = REQ.to_vec();\n        let mut b = httparse::_benchable::Bytes::new(&buf);\n        r = httparse::_benchable::%s(&mut b);\n    }\n    match r { Ok(httparse::Status::Complete(s)) => s.len(), _ => 0 }\n' % fn)
    add('_benchable::Bytes::slice/result/buffer-dropped',
        '    let n;\n    {\n        let buf: Vec<u8> = REQ.to_vec();\n        let mut b = httparse::_benchable::Bytes::new(&buf);\n        let s = b.slice();\n        n = s.len();\n    }\n    n\n',
        '    let s;\n    {\n        let buf: Vec<u8> = REQ.to_vec();\n        let mut b = httparse::_benchable::Bytes::new(&buf);\n        s = b.slice();\n    }\n    s.len()\n')
    add('_benchable::Bytes::slice/result/buffer-mutated',
        '    let mut buf: Vec<u8> = REQ.to_vec();\n    let mut b = httparse::_benchable::Bytes::new(&buf);\n    let s = b.slice();\n    let n = s.len();\n    buf[0] = 1;\n    n\n',
        '    let mut buf: Vec<u8> = REQ.to_vec();\n    let mut b = httparse::_benchable::Bytes::new(&buf);\n    let s = b.slice();\n    buf[0] = 1;\n    s.len()\n')
    return out


def rustc(path, rlib, deps, outdir):
    p = subprocess.run(['rustc', '--edition', '2018', '--crate-type', 'lib', '--emit=metadata', '--error-format=json', '--cap-lints', 'allow',
                        '--extern', 'httparse=' + rlib, '-L', 'dependency=' + deps, '-o', os.path.join(outdir, os.path.basename(path) + '.rmeta'), path],
                       capture_output=True, text=True, errors="replace")
    codes, msgs = [], []
    for l in p.stderr.split('\n'):
        if l.startswith('{'):
            try:
                d = json.loads(l)
            except ValueError:
                continue
            if d.get('level') == 'error':
                if d.get('code'):
                    codes.append(d['code']['code'])
                msgs.append((d.get('rendered') or d.get('message') or '')[:600])
    return p.returncode, codes, msgs


def run():
    res = dict(obligations=[], error=None, programs=0)
    tmp = tempfile.mkdtemp(prefix='httparse-clients-')
    try:
        src = os.path.join(tmp, 'crate')
        shutil.copytree(REPO, src, ignore=shutil.ignore_patterns('target', '.git', 'fuzz'))
        env = dict(os.environ, CARGO_NET_OFFLINE='true', CARGO_TARGET_DIR=os.path.join(tmp, 'target'))
        p = subprocess.run(['cargo', 'build', '--offline', '--lib', '--quiet'], cwd=src, env=env, capture_output=True, text=True, errors="replace")
        rlib = os.path.join(tmp, 'target', 'debug', 'libhttparse.rlib')
        if p.returncode != 0 or not os.path.exists(rlib):
            res['error'] = 'clients: cannot build the library: ' + p.stderr[-1200:]
            return res
        deps = os.path.join(tmp, 'target', 'debug', 'deps')
        pdir = os.path.join(tmp, 'p')
        os.makedirs(pdir)
        progs = corpus()
        res['programs'] = len(progs)
        jobs = []
        for k, (name, ctl, esc) in enumerate(progs):
            for suffix, text in (('c', ctl), ('e', esc)):
                f = os.path.join(pdir, 'p%03d%s.rs' % (k, suffix))
                open(f, 'w').write(text)
                jobs.append(f)
        with concurrent.futures.ThreadPoolExecutor(max_workers=int(os.environ.get('VERIF_JOBS', '12'))) as ex:
            verdicts = dict(zip(jobs, ex.map(lambda f: rustc(f, rlib, deps, pdir), jobs)))
        for k, (name, ctl, esc) in enumerate(progs):
            crc, ccodes, cmsgs = verdicts[os.path.join(pdir, 'p%03dc.rs' % k)]
            erc, ecodes, emsgs = verdicts[os.path.join(pdir, 'p%03de.rs' % k)]
            o = dict(id='clients::' + name, program=esc, control=ctl, codes=ecodes)
            if crc != 0:
                o.update(status='undecided', detail='the CONTROL twin (field used while buffer and array are alive) is rejected: ' + ' | '.join(cmsgs)[:800])
            elif erc == 0:
                o.update(status='fail', detail='rustc ACCEPTS this client program: a field / headers slice is used after its buffer / array is gone or overwritten')
            elif not (set(ecodes) & BORROW):
                o.update(status='undecided', detail='escape program rejected, but not by the borrow checker: ' + ' | '.join(emsgs)[:800])
            else:
                o.update(status='pass', detail='rejected with ' + ','.join(sorted(set(ecodes))))
            res['obligations'].append(o)
    finally:
        shutil.rmtree(tmp, ignore_errors=True)
    return res


if __name__ == '__main__':
    r = run()
    if '--list' in sys.argv:
        for o in r['obligations']:
            print(o['status'], o['id'], o['detail'][:160])
    else:
        for o in r['obligations']:
            o.pop('control', None)
        print(json.dumps(r))
    sys.exit(0 if not r['error'] and all(o['status'] == 'pass' for o in r['obligations']) else 1)
