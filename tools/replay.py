#!/usr/bin/env python3
"""./check --replay <file>: re-run the recorded failing input(s) on the real crate built from /repo's working tree."""
import json, os, sys
sys.path.insert(0, os.path.dirname(os.path.abspath(__file__)))
import witness as W


def main(path):
    d = json.load(open(path))
    print('property:', d.get('property'))
    for o in d.get('failed_obligations', []):
        print('failed obligation:', o['id'], '[%s]' % o['engine'])
        for t in (o.get('verifier_output') or [])[:1]:
            print('   ' + t.strip().replace('\n', '\n   ')[:1500])
    rc = 0
    fi = d.get('failing_inputs') or []
    progs = [o for o in d.get('failed_obligations', []) if (o.get('counterexample') or {}).get('client_program')]
    if progs:
        # C04 static half: ask rustc again, against the current working tree
        import clients
        r = clients.run()
        by = dict((o['id'], o) for o in r.get('obligations', []))
        for o in progs:
            cur = by.get(o['id'])
            print('--- client program %s' % o['id'])
            print(o['counterexample']['client_program'])
            if not cur:
                print('=> replay error: %s' % (r.get('error') or 'program no longer in the corpus'))
                continue
            print('=> %s' % ('rustc STILL ACCEPTS this escaping program' if cur['status'] == 'fail' else 'rustc rejects it on this tree (%s)' % cur['detail'] if cur['status'] == 'pass' else 'undecided: ' + cur['detail']))
            rc = max(rc, 1 if cur['status'] == 'fail' else 0)
        if not fi:
            return rc
    if not fi:
        print('no failing input recorded (no-failing-input-found): nothing to replay natively')
        return 0
    for f in fi:
        if f.get('guard'):
            code, out = W.replay_guard(f['family'], f.get('cfg', 0), f['input_hex'], (f.get('backends') or ['default'])[0])
            print('--- guard-page replay family=%s cfg=%s back-end build=%s input=%s' % (f['family'], f.get('cfg'), (f.get('backends') or ['default'])[0], f.get('input')))
            print(out.strip()[:1500])
            print('=> %s' % ('STILL reads past the end of the buffer' if code == 1 else 'no over-read on this tree' if code == 0 else 'replay error'))
            rc = max(rc, 1 if code == 1 else 0)
            continue
        code, out = W.replay(f['family'], f.get('cfg', 0), f.get('cap', 0), f['input_hex'], (f.get('backends') or ['default'])[0],
                             (f.get('history_hex'), f.get('history_cfg', 0), f.get('history_uninit', 0)) if 'history_hex' in f else None)
        print('--- replay family=%s cfg=%s cap=%s back-end build=%s input=%s' % (f['family'], f.get('cfg'), f.get('cap'), (f.get('backends') or ['default'])[0], f.get('input')))
        print(out.strip()[:3000])
        print('=> %s' % ('STILL DISAGREES with the oracle' if code == 1 else 'agrees with the oracle on this tree' if code == 0 else 'replay error'))
        rc = max(rc, 1 if code == 1 else 0)
    return rc


if __name__ == '__main__':
    sys.exit(main(sys.argv[1]))
