#!/usr/bin/env python3
"""Generate the single Verus input file from /repo's *current* source text plus the contract sidecars.

    /repo/src/*.rs  --cut (every run)-->  function bodies (real text)
    /verif/contracts/*.vspec           -->  requires/ensures/invariant/decreases/proof hints, keyed by fn + loop signature
    /verif/spec/*.rs                   -->  spec functions + lemmas (pasted verbatim inside verus!)

Output: <out>.rs and <out>.map.json (line -> function / clause / tags), used by the driver to name failed obligations.
See DESIGN.md section 2.2 for the complete list of what extraction drops or rewrites.
"""
import json
import os
import re
import subprocess
import sys

sys.path.insert(0, os.path.dirname(os.path.abspath(__file__)))
from cut import (AnchorLost, find_fn, find_item, find_scope, get_fn, get_item, match_brace, skip_trivia,
                 strip_attrs, strip_doc_comments)

VERIF = os.path.dirname(os.path.dirname(os.path.abspath(__file__)))
REPO = os.environ.get('VERIF_REPO', '/repo')
NIGHTLY = 'nightly-2026-08-21'

DROP_ATTRS = {'inline', 'cold', 'doc', 'allow', 'target_feature', 'cfg_attr'}


# ------------------------------------------------------------------------------------------------ sidecar
class FnSpec:
    def __init__(self, name):
        self.name = name
        self.key = name          # unique key (name or name@scope)
        self.source = 'lib.rs'
        self.scope = None
        self.mode = 'source'     # source | expanded
        self.ret = None
        self.tags = []
        self.attrs = []
        self.requires = []       # lines
        self.ensures = []        # (name, tags, lines)
        self.loops = []          # dict(sig, ord, inv=[(name,tags,lines)], decreases=[lines], ensures=[...])
        self.hints = []          # dict(where, anchor, ord, lines, optional)
        self.replaces = []       # dict(old, new, count)
        self.closures = []       # (callee, signature template)
        self.locals = None       # names bound by `let` / `for` / `while let` in the pinned text, in order (tools/mklocals.py)
        self.params = None       # parameter names of the pinned signature, in order
        self.ops = None          # bit-level / multiplicative operators of the pinned body, with counts (tools/mklocals.py)
        self.module = None       # module path in generated file, informational
        self.trusted = False
        self.sigreplace = []
        self.use_contract = None
        self.extra = {}


def parse_tags(s):
    from tags import expand
    m = re.search(r'\[([^\]]*)\]', s)
    return expand(m.group(1).split()) if m else None


def parse_sidecar(path):
    """tiny indentation-based format, see contracts/README"""
    specs, contracts = [], {}
    cur, body, sink, in_loop = None, None, None, False
    lines = open(path).read().split('\n')
    i = 0

    def qstr(s):
        m = re.search(r'"((?:[^"\\]|\\.)*)"', s)
        if not m:
            raise ValueError('%s: expected quoted string in %r' % (path, s))
        return m.group(1).replace('\\"', '"').replace('\\\\', '\\'), s[m.end():]

    while i < len(lines):
        raw = lines[i]
        i += 1
        if not raw.strip() or raw.lstrip().startswith('##'):
            continue
        ind = len(raw) - len(raw.lstrip(' '))
        line = raw.strip()
        if ind == 0:
            kw = line.split()[0]
            if kw == 'fn':
                cur = FnSpec(line.split()[1])
                specs.append(cur)
                sink = None
            elif kw == 'contract':
                cur = FnSpec(line.split()[1])
                contracts[cur.name] = cur
                sink = None
            else:
                raise ValueError('%s:%d: unknown top-level %r' % (path, i, line))
            continue
        if ind == 2:
            kw = line.split()[0]
            rest = line[len(kw):].strip()
            sink = None
            in_loop = (kw == 'loop')
            if kw == 'source':
                cur.source = rest
            elif kw == 'scope':
                cur.scope, _ = qstr(rest)
                cur.key = cur.name + '@' + re.sub(r'\W+', '_', cur.scope).strip('_')
            elif kw == 'key':
                cur.key = rest
            elif kw == 'mode':
                cur.mode = rest
            elif kw == 'ret':
                cur.ret = rest
            elif kw == 'tags':
                from tags import expand
                cur.tags = expand(rest.split())
            elif kw == 'attr':
                cur.attrs.append(rest)
            elif kw == 'assume_body':
                cur.trusted = True
            elif kw == 'variant':
                cur.extra['variant'] = rest
            elif kw == 'locals':
                cur.locals = rest.split()
            elif kw == 'params':
                cur.params = rest.split()
            elif kw == 'ops':
                cur.ops = dict((kv.rsplit(':', 1)[0], int(kv.rsplit(':', 1)[1])) for kv in rest.split())
            elif kw == 'use':
                cur.use_contract = rest
            elif kw == 'requires':
                sink = cur.requires
            elif kw == 'ensures':
                name = rest.split()[0] if rest and not rest.startswith('[') else 'post%d' % len(cur.ensures)
                ent = (name, parse_tags(rest), [])
                cur.ensures.append(ent)
                sink = ent[2]
            elif kw == 'loop':
                sig, tail = qstr(rest)
                ords = tail.split()
                lp = dict(sig=sig, ord=int(ords[0]) if ords else 0, inv=[], inv_eb=[], decreases=[], ensures=[])
                cur.loops.append(lp)
                sink = None
            elif kw == 'hint':
                where = rest.split()[0]
                anchor, tail = qstr(rest)
                toks = tail.split()
                nm = [t_[5:] for t_ in toks if t_.startswith('name=')]
                of_ = [int(t_[3:]) for t_ in toks if t_.startswith('of=')]
                h = dict(where=where, anchor=anchor, ord=int(toks[0]) if toks and toks[0].lstrip('-').isdigit() else 0, of=of_[0] if of_ else None,
                         lines=[], optional='optional' in toks, raw='raw' in toks, exact='exact' in toks, name=nm[0] if nm else None, tags=parse_tags(tail))
                cur.hints.append(h)
                sink = h['lines']
            elif kw == 'replace':
                old, tail = qstr(rest)
                new, tail2 = qstr(tail)
                toks = tail2.split()
                cur.replaces.append(dict(old=old, new=new, count=int(toks[0]) if toks else 1))
            elif kw == 'rereplace':
                old, tail = qstr(rest)
                new, tail2 = qstr(tail)
                toks = tail2.split()
                cur.replaces.append(dict(old=old, new=new, count=int(toks[0]) if toks else 1, regex=True))
            elif kw == 'closure':
                # closure "<callee name>" "<closure signature, $v = the closure's parameter>": the single-expression closure passed
                # as LAST argument of that call gets a Verus closure signature; its body text is kept whatever it is
                callee, tail = qstr(rest)
                sig_, _ = qstr(tail)
                cur.closures.append((callee, sig_))
            elif kw == 'sigreplace':
                old, tail = qstr(rest)
                new, _ = qstr(tail)
                cur.sigreplace.append((old, new))
            else:
                raise ValueError('%s:%d: unknown directive %r' % (path, i, line))
            continue
        if in_loop and ind == 4:
            kw = line.split()[0]
            rest = line[len(kw):].strip()
            lp = cur.loops[-1]
            if kw in ('invariant', 'invariant_except_break'):
                name = rest.split()[0] if rest and not rest.startswith('[') else 'inv%d' % len(lp['inv'])
                ent = (name, parse_tags(rest), [])
                lp['inv' if kw == 'invariant' else 'inv_eb'].append(ent)
                sink = ent[2]
            elif kw == 'decreases':
                sink = lp['decreases']
                if rest:
                    sink.append(rest)
            elif kw == 'loop_ensures':
                ent = ('lens%d' % len(lp['ensures']), parse_tags(rest), [])
                lp['ensures'].append(ent)
                sink = ent[2]
            elif kw == 'attr':
                lp.setdefault('attrs', []).append(rest)
                sink = None
            else:
                raise ValueError('%s:%d: unknown loop directive %r' % (path, i, line))
            continue
        if sink is None:
            raise ValueError('%s:%d: body line without a section: %r' % (path, i, line))
        strip = 6 if in_loop else 4
        sink.append(raw[strip:] if raw.startswith(' ' * strip) else line)
    return specs, contracts


# ------------------------------------------------------------------------------------------------ output model
class Out:
    """list of (text line, meta) with meta = dict(fn, kind, name, tags) or None"""

    def __init__(self):
        self.lines = []

    def add(self, text, meta=None):
        for l in text.split('\n'):
            self.lines.append((l, meta))

    def extend(self, other):
        self.lines.extend(other.lines)

    def text(self):
        return '\n'.join(l for l, _ in self.lines) + '\n'

    def linemap(self):
        regions = []
        curm, start = None, None
        for n, (_, m) in enumerate(self.lines, 1):
            if m is not curm:
                if curm is not None:
                    regions.append(dict(curm, start=start, end=n - 1))
                curm, start = m, n
        if curm is not None:
            regions.append(dict(curm, start=start, end=len(self.lines)))
        return regions


# ------------------------------------------------------------------------------------------------ rewrites (DESIGN 2.2)
NOTICES = []
HINT_COUNTS = {}
REWRITE_LOG = []


def rule(name, fn, count):
    if count:
        REWRITE_LOG.append(dict(rule=name, fn=fn, sites=count))


def generic_rewrites(t, fname):
    # R8: slice *address* of the cursor -> shim (Verus slices are extensional, addresses cannot be specified on them)
    t, n = re.subn(r'\bbytes\.as_ref\(\)\.as_ptr\(\) as usize', 'cursor_addr(bytes)', t)
    rule('R8', fname, n)
    # R3: `bytes.as_ref()` on `&mut Bytes` -> explicit deref (avoids core's blanket AsRef for &mut T)
    t, n = re.subn(r'\bbytes\.as_ref\(\)', '(*bytes).as_ref()', t)
    rule('R3', fname, n)
    # R10 (neon.rs only): block function called on the cursor's raw pointer -> one-line external_body wrapper taking the slice
    # (Verus has no specification for `<[u8]>::as_ptr`; the wrapper's body is that very call, spec/neon_leaves.rs)
    t, n = re.subn(r'\b(match_\w+_char_16_neon)\(\(\*bytes\)\.as_ref\(\)\.as_ptr\(\)\)', r'\1_at((*bytes).as_ref())', t)
    rule('R10', fname, n)
    # R2: u64::from_ne_bytes / usize::from_ne_bytes -> one-line external_body wrappers
    t, n = re.subn(r'\bu64::from_ne_bytes\(', 'u64_from_ne_bytes(', t)
    rule('R2', fname, n)
    # R5: cfg!(debug_assertions) -> arbitrary bool (one proof for both build profiles)
    t, n = re.subn(r'cfg!\(debug_assertions\)', 'dbg_profile()', t)
    rule('R5', fname, n)
    # R9: iterator rposition -> shim with the same body
    t, n = re.subn(r'(\w+)\s*\.iter\(\)\s*\.rposition\(', r'slice_rposition(\1, ', t)
    rule('R9', fname, n)
    # R1: or-pattern with a match guard -> one arm per alternative
    def r1(m):
        ind, alts, guard, body = m.group(1), m.group(2), m.group(3), m.group(4)
        return '\n'.join('%s%s if %s => %s' % (ind, a.strip(), guard, body) for a in alts.split('|'))
    t, n = re.subn(r"^([ \t]*)((?:b'(?:\\.|[^'])'\s*\|\s*)+b'(?:\\.|[^'])')\s+if\s+([^=]+?)\s*=>\s*(.*)$", r1, t, flags=re.M)
    rule('R1', fname, n)
    # R7: `let x[: T] = 'l: loop { .. break 'l e; .. };`  ->  `let x[: T]; 'l: loop { .. { x = e; break 'l; } .. }`
    k = 0
    while True:
        m = re.search(r"let (\w+)(: [^=;]+?)? =\s*('\w+): loop \{", t)
        if not m:
            break
        var, ty, label = m.group(1), m.group(2) or '', m.group(3)
        j = m.end() - 1
        e = match_brace(t, j)
        if not t[e:].lstrip().startswith(';'):
            raise AnchorLost('R7: loop-with-value not followed by ;')
        semi = t.index(';', e)
        body = t[j:e]
        body = re.sub(r"break " + label + r"\s+([^;]+);", lambda mm: "{ %s = %s; break %s; }" % (var, mm.group(1), label), body)
        ls = t.rfind('\n', 0, m.start()) + 1
        ind = re.match(r'[ \t]*', t[ls:]).group(0)
        t = t[:m.start()] + "let %s%s;\n%s%s: loop " % (var, ty, ind, label) + body + t[semi + 1:]
        k += 1
    rule('R7', fname, k)
    return t


def hoist_local_items(t, fname):
    """R4/R6: hoist fn-local const/struct/impl items to module level; delete fn-local macro_rules (X1)"""
    hoisted = []
    # fn-local `const NAME: T = expr;`
    for m in list(re.finditer(r'^[ \t]+const (\w+): ([^=]+?) = ([^;]+);\n', t, re.M)):
        hoisted.append(('const', m.group(1), m.group(2).strip(), m.group(3).strip()))
    t, n = re.subn(r'^[ \t]+const (\w+): ([^=]+?) = ([^;]+);\n', '', t, flags=re.M)
    rule('R4', fname, n)
    k = 0
    while True:
        m = re.search(r'^[ \t]+(struct \w+|impl(?:<[^>]*>)? Drop for \w+)', t, re.M)
        if not m:
            break
        j = t.index('{', m.end())
        e = match_brace(t, j)
        hoisted.append(('item', m.group(1), t[m.start():e], None))
        t = t[:m.start()] + t[e:]
        k += 1
    rule('R6', fname, k)
    k = 0
    while True:
        m = re.search(r'^[ \t]*macro_rules!\s*\w+\s*\{', t, re.M)
        if not m:
            break
        e = match_brace(t, m.end() - 1)
        t = t[:m.start()] + t[e:]
        k += 1
    rule('X1-local-macros-deleted', fname, k)
    return t, hoisted


# ------------------------------------------------------------------------------------------------ injection
LOOP_RE = re.compile(r"^(\s*)((?:'\w+:\s*)?(?:loop|while\b.*?|for\b.*?))\s*\{\s*$")


def split_sig_body(text):
    """text of one fn item -> (leading attr/comment lines, signature text, body text starting at '{')"""
    m = re.search(r'^[ \t]*(?:pub(?:\([a-z:]+\))?\s+)?(?:const\s+)?(?:unsafe\s+)?fn\s+\w+', text, re.M)
    head = text[:m.start()]
    p, depth = m.end(), 0
    while True:
        q = skip_trivia(text, p)
        if q is not None:
            p = q
            continue
        c = text[p]
        if c in '([':
            depth += 1
        elif c in ')]':
            depth -= 1
        elif c == '{' and depth == 0:
            break
        p += 1
    return head, text[m.start():p].rstrip(), text[p:]


OPS = ('<<', '>>', '|', '&', '^', '*', '/', '%')


def op_signature(body):
    """how often each bit-level or multiplicative binary operator (and its assigning form) occurs in a function body: comments,
    strings and character literals skipped, `|` of patterns (match arms, matches!, closure parameters) not counted.  The SMT
    solver does not reason about these unprompted (bit-vector / non-linear arithmetic need `by (bit_vector)` / lemmas), so a body
    that has MORE of them than the pinned text may fail its proof for that reason alone (rule A6)."""
    clean, p, n = [], 0, len(body)
    while p < n:
        q = skip_trivia(body, p)
        if q is not None:
            clean.append(' ' * (q - p) if '\n' not in body[p:q] else '\n')
            p = q
            continue
        clean.append(body[p])
        p += 1
    t = ''.join(clean)
    t = re.sub(r"b?'(?:\\.|[^'\\])'", '0', t)            # character / byte literals
    t = re.sub(r'\bmatches!\s*\(', 'matches!(\x00', t)
    counts = dict((o, 0) for o in OPS)
    for line in t.split('\n'):
        seg = line
        if '\x00' in seg:                                  # matches!(expr, PATTERN): drop what follows the first comma
            a = seg.index('\x00')
            c = seg.find(',', a)
            seg = seg[:a] + (seg[a:c] if c >= 0 else '')
        if '=>' in seg:                                    # match arm: the pattern is not arithmetic, its guard is
            pat, rest = seg.split('=>', 1)
            g = re.search(r'\bif\b', pat)
            seg = (pat[g.end():] + ' ; ' if g else '') + rest
        if seg.strip().startswith('|'):                    # continuation line of a multi-line pattern
            seg = ''
        seg = re.sub(r'(^|[(,=]|\bmove)\s*\|[^|]*\|', r'\1 ', seg)      # closure parameters
        for m in re.finditer(r'(?<=\s)(<<|>>|\||&|\^|\*|/|%)=?(?=\s)', seg):
            counts[m.group(1)] += 1
    return counts


def bound_names(body):
    """names bound by let / if let Some / while let Some / for, in order of appearance (comments and strings skipped)"""
    out, p, n = [], 0, len(body)
    clean = []
    while p < n:
        q = skip_trivia(body, p)
        if q is not None:
            clean.append(' ' * (q - p))
            p = q
            continue
        clean.append(body[p])
        p += 1
    t = ''.join(clean)
    for m in re.finditer(r"\blet\s+(?:Some\(\s*)?(?:mut\s+|&\s*)?([A-Za-z_]\w*)\b|\bfor\s+\(?\s*(?:mut\s+|&\s*)?([A-Za-z_]\w*)\b", t):
        nm = m.group(1) or m.group(2)
        if nm not in ('mut', 'ref', '_'):
            out.append(nm)
    return out


def param_names(sig):
    m = re.search(r'\bfn\s+\w+\s*(?:<[^(]*>)?\s*\(', sig)
    if not m:
        return []
    e = match_brace(sig, m.end() - 1, '(', ')')
    out = []
    for part in re.split(r',(?![^<(]*[>)])', sig[m.end():e - 1]):
        mm = re.match(r'\s*(?:mut\s+)?(&?\s*(?:mut\s+)?self|[A-Za-z_]\w*)\s*(?::|$)', part.strip())
        if mm:
            out.append(re.sub(r'[&\s]|mut', '', mm.group(1)) if 'self' in mm.group(1) else mm.group(1))
    return out


def rename_map(recorded, current, text):
    """pinned name -> current name, for names that were RENAMED.  The two binding lists are aligned (difflib); a run of k pinned names
    replaced by a run of k other names maps pairwise, provided the pinned name no longer occurs in the function's text at all and
    the new name is not one of the pinned names.  Bindings that were added or removed map nothing (and do not disturb the alignment
    of the others); reordered bindings keep their names, so they map nothing either."""
    if not recorded or not current:
        return {}
    import difflib
    words = set(re.findall(r'[A-Za-z_]\w*', text))
    mp = {}
    for op, i1, i2, j1, j2 in difflib.SequenceMatcher(a=recorded, b=current, autojunk=False).get_opcodes():
        if op == 'replace' and i2 - i1 == j2 - j1:
            for old, new in zip(recorded[i1:i2], current[j1:j2]):
                if old != new and old not in words and new not in recorded:
                    if mp.get(old, new) != new:
                        return {}
                    mp[old] = new
    return mp


def apply_renames(spec, contract, mp):
    import copy
    rx = re.compile(r'(?<![\w.])(' + '|'.join(re.escape(k) for k in sorted(mp, key=len, reverse=True)) + r')\b')
    sub = lambda l: rx.sub(lambda m_: mp[m_.group(1)], l)
    sp, con = copy.deepcopy(spec), copy.deepcopy(contract)
    for c in (sp, con):
        c.requires = [sub(l) for l in c.requires]
        c.ensures = [(n, t, [sub(l) for l in ls]) for n, t, ls in c.ensures]
    for lp in sp.loops:
        for k in ('inv', 'inv_eb', 'ensures'):
            lp[k] = [(n, t, [sub(l) for l in ls]) for n, t, ls in lp[k]]
        lp['decreases'] = [sub(l) for l in lp['decreases']]
        lp['sig'] = sub(lp['sig'])
    for h in sp.hints:
        h['lines'] = [sub(l) for l in h['lines']]
        h['anchor'] = sub(h['anchor'])
    for r in sp.replaces:
        if not r.get('regex'):
            r['old'], r['new'] = sub(r['old']), sub(r['new'])
    return sp, con


def inject(spec, text, contract, warnings, vac=False):
    """returns Out for one function under contract"""
    out = Out()
    fnm = spec.key
    head, sig, body = split_sig_body(text)
    # renamed locals / parameters: the annotations follow the rename (recorded as a notice); see rename_map for the guards
    mp = rename_map(spec.locals, bound_names(body), sig + body)
    mp.update(rename_map(spec.params, param_names(sig), sig + body))
    if mp and not spec.trusted:
        if not vac:
            NOTICES.append('%s: renamed in the source, annotations follow: %s' % (fnm, ', '.join('%s -> %s' % kv for kv in sorted(mp.items()))))
        same = contract is spec
        spec, contract = apply_renames(spec, contract, mp)
        if same:
            contract = spec
    if spec.ops is not None and not spec.trusted and not vac:
        cur_ops = op_signature(body)
        more = ['`%s` %d times (pinned tree: %d)' % (o, cur_ops[o], spec.ops.get(o, 0)) for o in OPS if cur_ops[o] > spec.ops.get(o, 0)]
        if more:
            # rule A6: a tool limit, not a verdict -- the witness search decides whether the new arithmetic misbehaves
            warnings.append('%s: new bit-level / multiplicative arithmetic in the source (%s), which the SMT solver does not reason about unprompted; a failure is not trusted' % (fnm, ', '.join(more)))
    head = strip_doc_comments(strip_attrs(head, DROP_ATTRS))
    for old, new in spec.sigreplace:
        if old not in sig:
            raise AnchorLost('%s: signature text %r not found' % (fnm, old))
        sig = sig.replace(old, new)
    ret = contract.ret or spec.ret
    if ret:
        if '->' in sig:
            sig = re.sub(r'->\s*(.+)$', lambda m: '-> (%s: %s)' % (ret, m.group(1).strip()), sig, flags=re.S)
    if vac:
        sig, n = re.subn(r'\bfn\s+%s\b' % re.escape(spec.name), 'fn %s__vac' % spec.name, sig, count=1)
        if n != 1:
            raise AnchorLost('%s: cannot name the must-fail twin' % fnm)
    base = dict(fn=fnm, kind='body', name='', tags=spec.tags)
    if spec.trusted:
        # contract stated, body NOT verified (listed as trusted in the evidence until its proof is in place)
        out.add('#[verifier::external_body]', base)
    for a in spec.attrs + [a for a in contract.attrs if a not in spec.attrs]:
        if spec.trusted and ('loop_isolation' in a or 'allow_complex' in a or 'rlimit' in a):
            continue
        out.add(a, base)
    if head.strip():
        out.add(head.rstrip('\n'), base)
    out.add(sig, dict(base, kind='sig'))
    if contract.requires:
        out.add('    requires', dict(base, kind='requires'))
        for l in contract.requires:
            out.add('        ' + l, dict(base, kind='requires'))
    ens = list(contract.ensures)
    if vac:
        # must-fail twin: a COPY of the function (same body, same callees with their real contracts) with this clause added has to be
        # REJECTED, else its requires, or what it assumes about a callee, is contradictory and the real obligations hold vacuously
        ens.append(('vacuity', spec.tags, ['false,']))
    if ens:
        out.add('    ensures', dict(base, kind='ensures'))
        for name, tags, lines in ens:
            meta = dict(fn=fnm, kind='ensures', name=name, tags=tags if tags is not None else spec.tags)
            for l in lines:
                out.add('        ' + l, meta)
    if spec.trusted:
        if spec.extra.get('demoted'):
            # demoted by the driver (its text no longer type-checks with the annotations, or calls something that is not in the
            # generated file): contract only, and NO body text, so that what made it fail to compile cannot fail the whole file
            out.lines.append(('{ unimplemented!() }', base))
            return out
        for l in body.split('\n'):
            out.lines.append((l, base))
        return out
    # ---- body: function-specific replaces, then loops, then hints (line based)
    for r in spec.replaces:
        if r.get('regex'):
            n = len(re.findall(r['old'], body, re.S))
        else:
            n = body.count(r['old'])
        if n != r['count']:
            raise AnchorLost('%s: replace anchor %r found %d times, expected %d' % (fnm, r['old'], n, r['count']))
        body = re.sub(r['old'], lambda m_: r['new'], body, flags=re.S) if r.get('regex') else body.replace(r['old'], r['new'])
    for callee, sigt in spec.closures:
        hits = [m_ for m_ in re.finditer(r'\b%s\(' % re.escape(callee), body)]
        if len(hits) != 1:
            raise AnchorLost('%s: closure anchor: call of %s found %d times, expected 1' % (fnm, callee, len(hits)))
        po = hits[0].end() - 1
        pc = match_brace(body, po, '(', ')')
        args = body[po + 1:pc - 1]
        mc = re.search(r'\|\s*(&?)\s*(\w+)\s*\|\s*(?!\{)', args)
        if not mc:
            raise AnchorLost('%s: closure anchor: no single-expression closure `|x| expr` / `|&x| expr` in the arguments of %s' % (fnm, callee))
        deref, var, expr = mc.group(1), mc.group(2), args[mc.end():].rstrip().rstrip(',').rstrip()
        if deref:
            # `|&x| expr`: the parameter is bound by value; the annotated closure takes the reference and binds x first
            body = body[:po + 1] + args[:mc.start()] + sigt.replace('$v', var + '__r') + ' { let %s = *%s__r; %s }' % (var, var, expr) + body[pc - 1:]
        else:
            body = body[:po + 1] + args[:mc.start()] + sigt.replace('$v', var) + ' { ' + expr + ' }' + body[pc - 1:]
    blines = [(l, base) for l in body.split('\n')]
    # loops.  A loop's annotation is anchored by the text of its header + ordinal.  When a header's text has changed but the
    # function still has the same loops in the same order and of the same kind (label, loop/while/while let/for), the
    # annotation is attached by kind and position instead (the invariants speak about the cursor and the oracle, not about the
    # header's text); this is recorded as a notice, and the obligations are decided as usual.
    def loop_kind(sig_):
        mk = re.match(r"(?:('\w+):\s*)?(loop|while let|while|for)\b", sig_)
        return (mk.group(1), mk.group(2)) if mk else (None, sig_)
    src_loops = []          # (line index, LOOP_RE match, normalised header, ordinal)
    seen = {}
    for i_, (l, m) in enumerate(blines):
        mm = LOOP_RE.match(l)
        if mm and not l.lstrip().startswith('//'):
            sig_l = re.sub(r'\s+', ' ', mm.group(2).strip())
            k = seen.get(sig_l, 0)
            seen[sig_l] = k + 1
            src_loops.append((i_, mm, sig_l, k))
    pairing, used = {}, set()
    for i_, mm, sig_l, k in src_loops:
        for idx, cand in enumerate(spec.loops):
            if re.sub(r'\s+', ' ', cand['sig']) == sig_l and cand['ord'] == k:
                pairing[i_] = idx
                used.add(idx)
    if len(pairing) < len(src_loops) and len(src_loops) == len(spec.loops):
        fuzzy, fused = {}, set()
        for i_, mm, sig_l, k in src_loops:
            if i_ in pairing:
                continue
            for idx, cand in enumerate(spec.loops):
                if idx not in used and idx not in fused and loop_kind(re.sub(r'\s+', ' ', cand['sig'])) == loop_kind(sig_l):
                    fuzzy[i_] = idx
                    fused.add(idx)
                    break
        # accepted only if it is a complete one-to-one pairing (per kind: in order of appearance)
        allp = dict(pairing); allp.update(fuzzy)
        if len(allp) == len(src_loops) and len(set(allp.values())) == len(spec.loops):
            for i_, idx in fuzzy.items():
                NOTICES.append('%s: loop header %r changed in the source (sidecar has %r #%d); annotation attached by kind and position' % (
                    fnm, [x[2] for x in src_loops if x[0] == i_][0], spec.loops[idx]['sig'], spec.loops[idx]['ord']))
            pairing, used = allp, used | fused
    if len(pairing) < len(src_loops) and len(src_loops) == 1 and len(spec.loops) == 1:
        # the function's ONLY loop has changed its kind (`while c {..}` <-> `loop { if !c { break } .. }`, `while let` <-> `loop { match }`):
        # the annotation is still attached, but as a WARNING: if the obligations are discharged the function is verified, if one fails
        # it is not trusted as a verdict (the proof may simply not fit the new shape)
        pairing, used = {src_loops[0][0]: 0}, {0}
        warnings.append('%s: its only loop changed kind (%r, sidecar has %r); annotation attached, a failure is not trusted' % (
            fnm, src_loops[0][2], spec.loops[0]['sig']))
    newl = []
    src_at = dict((i_, (mm, sig_l, k)) for i_, mm, sig_l, k in src_loops)
    for i_, (l, m) in enumerate(blines):
        if i_ in src_at:
            mm, sig_l, k = src_at[i_]
            lp = spec.loops[pairing[i_]] if i_ in pairing else None
            if lp is not None:
                # obligation names stay those of the sidecar entry, whatever the header's current text is
                sig_l, k = re.sub(r'\s+', ' ', lp['sig']), lp['ord']
            if lp is None:
                warnings.append('%s: loop %r #%d has no sidecar entry' % (fnm, sig_l, k))
                newl.append((l, m))
                continue
            for a_ in lp.get('attrs', []):
                newl.append((mm.group(1) + a_, m))
            newl.append((mm.group(1) + mm.group(2), m))
            if lp['inv_eb']:
                newl.append((mm.group(1) + '    invariant_except_break', dict(base, kind='invariant', name='loop %s#%d' % (sig_l, k))))
                for name, tags, lines in lp['inv_eb']:
                    meta = dict(fn=fnm, kind='invariant', name='%s#%d:%s' % (sig_l, k, name), tags=tags if tags is not None else spec.tags)
                    for x in lines:
                        newl.append((mm.group(1) + '        ' + x, meta))
            if lp['inv']:
                newl.append((mm.group(1) + '    invariant', dict(base, kind='invariant', name='loop %s#%d' % (sig_l, k))))
                for name, tags, lines in lp['inv']:
                    meta = dict(fn=fnm, kind='invariant', name='%s#%d:%s' % (sig_l, k, name), tags=tags if tags is not None else spec.tags)
                    for x in lines:
                        newl.append((mm.group(1) + '        ' + x, meta))
            if lp['ensures']:
                newl.append((mm.group(1) + '    ensures', dict(base, kind='invariant')))
                for name, tags, lines in lp['ensures']:
                    meta = dict(fn=fnm, kind='invariant', name='%s#%d:%s' % (sig_l, k, name), tags=tags if tags is not None else spec.tags)
                    for x in lines:
                        newl.append((mm.group(1) + '        ' + x, meta))
            if lp['decreases']:
                meta = dict(fn=fnm, kind='decreases', name='%s#%d' % (sig_l, k), tags=['C01', 'C20'])
                newl.append((mm.group(1) + '    decreases ' + ' '.join(lp['decreases']), meta))
            newl.append((mm.group(1) + '{', m))
        else:
            newl.append((l, m))
    for idx, cand in enumerate(spec.loops):
        if idx not in used:
            warnings.append('%s: sidecar loop %r #%d not found in source' % (fnm, cand['sig'], cand['ord']))
    blines = newl
    # hints
    for h in spec.hints:
        hits = [i for i, (l, m) in enumerate(blines) if (l.strip() == h['anchor'] if h.get('exact') else h['anchor'] in l) and m.get('kind') == 'body']
        k = h['ord']
        HINT_COUNTS[(fnm, h['where'], h['anchor'], k)] = len(hits)
        if h.get('of') is not None and len(hits) != h['of'] and not (k >= len(hits) or (k < 0 and -k > len(hits))):
            # the anchor line occurs a different number of times than on the pinned tree: the ordinal may now select another
            # occurrence, so the hint is still placed but a failure of this function is not trusted as a verdict
            warnings.append('%s: hint anchor %r occurs %d times (pinned tree: %d); ordinal #%d may select a different place' % (fnm, h['anchor'], len(hits), h['of'], k))
        if k >= len(hits) or (k < 0 and -k > len(hits)):
            msg = '%s: hint anchor %r #%d not found (%d hits)' % (fnm, h['anchor'], k, len(hits))
            warnings.append(msg)
            continue
        at = hits[k]
        ind = re.match(r'\s*', blines[at][0]).group(0)
        meta = dict(fn=fnm, kind='hint', name='hint@%s#%d' % (h['anchor'], k), tags=spec.tags)
        if h.get('name'):
            meta = dict(fn=fnm, kind='assert', name=h['name'], tags=h['tags'] if h.get('tags') is not None else spec.tags)
        if h['raw']:
            ins = [(ind + x, meta) for x in h['lines']]
        else:
            ins = [(ind + 'proof {', meta)] + [(ind + '    ' + x, meta) for x in h['lines']] + [(ind + '}', meta)]
        if h['where'] == 'before':
            blines[at:at] = ins
        else:
            blines[at + 1:at + 1] = ins
    for l, m in blines:
        out.lines.append((l, m))
    return out


# ------------------------------------------------------------------------------------------------ sources
class Sources:
    def __init__(self, repo):
        self.repo = repo
        self.cache = {}
        self._expanded = None

    def get(self, rel):
        if rel not in self.cache:
            self.cache[rel] = open(os.path.join(self.repo, 'src', rel)).read()
        return self.cache[rel]

    def expanded(self):
        """X1: rustc's own macro expansion of the real crate (regenerated every run)"""
        if self._expanded is None:
            cmd = ['rustc', '+' + NIGHTLY, '-Zunpretty=expanded', '--edition', '2018', '--crate-type', 'lib',
                   '--cfg', 'feature="std"', '--cfg', 'httparse_simd', os.path.join(self.repo, 'src', 'lib.rs')]
            p = subprocess.run(cmd, capture_output=True, text=True, errors="replace")
            if p.returncode != 0:
                raise BuildError('macro expansion of /repo failed:\n' + p.stderr[-3000:])
            self._expanded = p.stdout
        return self._expanded


class BuildError(Exception):
    pass


def type_item(src, regex):
    t = get_item(src, regex)
    t = strip_doc_comments(t)
    # D2: keep derives except Debug; add verus allowance
    def fix(m):
        ds = [d.strip() for d in m.group(1).split(',') if d.strip() not in ('Debug',)]
        return ('#[derive(%s)]\n#[verifier::allow(autoderive_clone_without_spec)]' % ', '.join(ds)) if ds else ''
    t = re.sub(r'#\[derive\(([^)]*)\)\]', fix, t)
    return t


def build(out_path, only=None):
    src = Sources(REPO)
    lib = src.get('lib.rs')
    warnings = []
    specs, contracts = [], {}
    cdir = os.path.join(VERIF, 'contracts')
    for f in sorted(os.listdir(cdir)):
        if f.endswith('.vspec'):
            s, c = parse_sidecar(os.path.join(cdir, f))
            specs += s
            contracts.update(c)
    by_mod = {}
    hoisted_all = []
    fn_outs = {}
    variant = os.environ.get('VERIF_VARIANT', 'main')
    want = {'main': 'assumed', 'hdrproof': 'proof'}[variant]
    specs = [sp for sp in specs if sp.extra.get('variant') in (None, want)]
    # functions whose proof annotations cannot even be type-checked against the current source (renamed local, removed
    # variable ...) can be demoted by the driver to contract-only, so that the rest of the file is still verified
    demote = set(x for x in os.environ.get('VERIF_ASSUME_BODY', '').split(',') if x)
    for sp in specs:
        if sp.key in demote:
            sp.trusted = True
            sp.extra['demoted'] = True
    for sp in specs:
        if only and sp.key not in only and sp.name not in only:
            continue
        if 'simd::neon' in demote and sp.source == 'simd/neon.rs':
            continue        # the NEON back end is left out of this run as a whole (the driver reports it as undecided)
        con = sp
        if sp.use_contract:
            toks = sp.use_contract.split()
            if toks[0] not in contracts:
                raise ValueError('unknown contract ' + toks[0])
            con = contracts[toks[0]]
            if len(toks) == 3 and toks[1] == 'as':
                import copy
                con = copy.deepcopy(con)
                sub = lambda l: re.sub(r'\bbytes\b', toks[2], l)
                con.requires = [sub(l) for l in con.requires]
                con.ensures = [(n, t, [sub(l) for l in ls]) for n, t, ls in con.ensures]
        if sp.source == 'simd/neon.rs':
            # the NEON back end cannot be built for this host; what is decided about it (on emulated intrinsics) is reported under
            # C12 / C13 / C01 only, so that a neon.rs the emulation cannot process leaves the message-level properties decided
            import copy
            keep = lambda ts: [t for t in (ts or []) if t in ('C01', 'C12', 'C13', 'C20')]
            con = copy.deepcopy(con)
            con.ensures = [(n, keep(t if t is not None else sp.tags), ls) for n, t, ls in con.ensures]
            sp.tags = keep(sp.tags)
        if sp.mode == 'expanded':
            text = get_fn(src.expanded(), sp.name, sp.scope)
        else:
            text = get_fn(src.get(sp.source), sp.name, sp.scope)
        try:
            text, hoisted = hoist_local_items(text, sp.key)
            hoisted_all += [(sp.key, h) for h in hoisted]
            text = generic_rewrites(text, sp.key)
            o = inject(sp, text, con, warnings)
            if os.environ.get('VERIF_VACUITY') and not sp.trusted:
                o.add('')
                o.extend(inject(sp, text, con, [], vac=True))
        except AnchorLost as e:
            if str(e).startswith(sp.key + ': '):
                raise
            raise AnchorLost('%s: %s' % (sp.key, e))
        fn_outs[sp.key] = (sp, o)
    return src, specs, contracts, fn_outs, hoisted_all, warnings


def indent(out, n):
    o = Out()
    for l, m in out.lines:
        o.lines.append(((' ' * n + l) if l.strip() else l, m))
    return o


def read_spec(name):
    """spec/*.rs pasted verbatim; `// @tags C02 C11` above an item tags the following proof fn"""
    o = Out()
    path = os.path.join(VERIF, 'spec', name)
    tags, cur = None, None
    for l in open(path).read().split('\n'):
        m = re.match(r'\s*// @tags (.*)$', l)
        if m:
            tags = m.group(1).split()
        m2 = re.match(r'\s*(?:pub )?(?:broadcast )?proof fn (\w+)', l)
        if m2:
            cur = dict(fn='lemma:' + m2.group(1), kind='lemma', name=m2.group(1), tags=tags or [])
            tags = None
        m3 = re.match(r'\s*(?:pub )?(?:open |closed |uninterp )*spec fn (\w+)', l)
        if m3:
            cur = dict(fn='spec:' + m3.group(1), kind='spec', name=m3.group(1), tags=[])
        o.add(l, cur)
    return o


def simple_consts(text, skip=()):
    """module-level `const NAME: <int type> = <arithmetic over literals>;` items (a change may introduce one for a block size): copied
    into the module's verus! block so that the functions under contract can name them"""
    out = []
    for m in re.finditer(r'^(?:pub(?:\([a-z]+\))? )?const (\w+): (usize|u8|u16|u32|u64|i32|i64|isize) = ([0-9xa-fA-F_+\-*/() <>|&]+);', text, re.M):
        if m.group(1) not in skip:
            out.append('pub const %s: %s = %s;' % (m.group(1), m.group(2), m.group(3).strip()))
    return out


def assemble(out_path, only=None):
    src, specs, contracts, fn_outs, hoisted, warnings = build(out_path, only)
    lib = src.get('lib.rs')
    swar = src.get('simd/swar.rs')
    sse = src.get('simd/sse42.rs')
    avx = src.get('simd/avx2.rs')
    rt = src.get('simd/runtime.rs')
    neon = src.get('simd/neon.rs')
    simd_mod = src.get('simd/mod.rs')
    out = Out()
    A = out.add
    A('// GENERATED on every run by /verif/tools/gen.py from %s/src -- do not edit.' % REPO)
    A('#![allow(unused, non_snake_case, unused_unsafe, unreachable_code, unused_braces, unused_parens, overflowing_literals)]')
    A('#![feature(sized_hierarchy)]')
    A('use vstd::prelude::*;')
    A('use core::{fmt, mem, result, str};')
    A('use core::mem::MaybeUninit;')
    A('#[macro_use] #[path="%s/src/macros.rs"] mod macros;' % REPO)
    A('#[path="%s/src/iter.rs"] mod iter;' % REPO)
    A('use iter::Bytes;')
    A('// ---- external (Kani leaves): class tables and predicates, real text')
    ext = dict(fn='external', kind='external', name='lib-leaves', tags=[])
    for rx in (r'^static URI_MAP', r'^static TOKEN_MAP', r'^static HEADER_VALUE_MAP'):
        A(get_item(lib, rx, 'semi'), ext)
    for f in ('is_method_token', 'is_uri_token', 'is_header_name_token', 'is_header_value_token'):
        A(strip_doc_comments(get_fn(lib, f)), ext)
    for f in ('deinit_slice_mut', 'assume_init_slice'):
        A(strip_doc_comments(get_fn(lib, f)), ext)
    # the two cast wrappers (raw-pointer casts): external real text, contract assumed in Verus, Kani leaf on the real text
    for scope in (r"^impl<'h, 'b> Request<'h, 'b>", r"^impl<'h, 'b> Response<'h, 'b>"):
        hdr = re.search(scope, lib, re.M)
        A(lib[hdr.start():lib.index('{', hdr.start()) + 1], ext)
        A(strip_doc_comments(get_fn(lib, 'parse_with_config', scope)), ext)
        A('}', ext)

    def fns_in(module):
        o = Out()
        for sp in specs:
            if sp.key in fn_outs and sp.module == module:
                o.extend(fn_outs[sp.key][1])
                o.add('')
        return o

    for sp in specs:
        if sp.module is None:
            sp.module = {'lib.rs': 'crate', 'simd/swar.rs': 'simd::swar', 'simd/sse42.rs': 'simd::sse42',
                         'simd/avx2.rs': 'simd::avx2', 'simd/neon.rs': 'simd::neon', 'simd/runtime.rs': 'simd::runtime', 'simd/mod.rs': 'simd::' + (sp.scope or '')}[sp.source]
            if sp.source == 'simd/mod.rs':
                sp.module = 'simd::' + re.search(r'mod (\w+)', sp.scope).group(1)

    # ---- simd tree: every backend present at once (the real cfg lattice is checked separately, C13)
    A('mod simd {')
    A('  pub mod swar {')
    A('    use vstd::prelude::*;')
    A('    use crate::*;')
    A('    type ByteBlock = [u8; BLOCK_SIZE];')
    A('    // ---- external (Kani leaves), real text')
    sw_ext = dict(fn='external', kind='external', name='swar-leaves', tags=[])
    for f in ('match_tail', 'match_block', 'uniform_block', 'match_uri_char_8_swar', 'match_header_value_char_8_swar', 'offsetnz'):
        A(strip_attrs(strip_doc_comments(get_fn(swar, f)), {'cold'}), sw_ext)
    A('    verus! {')
    A('    pub exec const BLOCK_SIZE: usize ensures BLOCK_SIZE == 8 { core::mem::size_of::<usize>() }')
    out.extend(indent(read_spec('swar_leaves.rs'), 4))
    out.extend(indent(fns_in('simd::swar'), 4))
    A('    } // verus!')
    A('  }')
    for modname, text, leaves in (('sse42', sse, ('match_url_char_16_sse', 'match_header_value_char_16_sse')),
                                  ('avx2', avx, ('match_url_char_32_avx', 'match_header_value_char_32_avx'))):
        A('  pub mod %s {' % modname)
        A('    use vstd::prelude::*;')
        A('    use crate::*;')
        A('    // ---- external (Kani leaves), real text')
        for f in leaves:
            A(strip_doc_comments(get_fn(text, f)), dict(fn='external', kind='external', name=modname + '-leaves', tags=[]))
        A('    verus! {')
        for c_ in simple_consts(text):
            A('    ' + c_, dict(fn='external', kind='external', name=modname + '-leaves', tags=[]))
        out.extend(indent(read_spec(modname + '_leaves.rs'), 4))
        out.extend(indent(fns_in('simd::' + modname), 4))
        A('    } // verus!')
        A('  }')
    # NEON: this host has no aarch64 target, so `core::arch::aarch64` is replaced by the emulation module (rule N1); the
    # block functions are external real text (Kani leaves over all 2^128 blocks), the three scanner loops are verified
    skip_neon = 'simd::neon' in set(x for x in os.environ.get('VERIF_ASSUME_BODY', '').split(',') if x)
    A('  pub mod neon {')
    if not skip_neon:
        A('    use vstd::prelude::*;')
        A('    use crate::*;')
        A('    #[path="%s/kani/neon_emu.rs"] pub mod neon_emu;' % VERIF)
        if neon.count('use core::arch::aarch64::*;') != 1:
            raise AnchorLost('simd/neon.rs: import of core::arch::aarch64 not found exactly once (rule N1)')
        A('    use self::neon_emu::*;   // N1: stands for `use core::arch::aarch64::*;`')
        ne_ext = dict(fn='external', kind='external', name='neon-leaves', tags=[])
        A('    // ---- external (Kani leaves), real text')
        A(strip_doc_comments(get_fn(neon, 'bit_set')), ne_ext)
        A(strip_doc_comments(get_fn(neon, 'build_bitmap')), ne_ext)
        A(get_item(neon, r'^const BITMAPS', 'semi'), ne_ext)
        for f in ('match_header_name_char_16_neon', 'match_url_char_16_neon', 'match_header_value_char_16_neon', 'offsetz', 'offsetnz'):
            A(strip_doc_comments(get_fn(neon, f)), ne_ext)
        A('    verus! {')
        for c_ in simple_consts(neon):
            A('    ' + c_, ne_ext)
        out.extend(indent(read_spec('neon_leaves.rs'), 4))
        out.extend(indent(fns_in('simd::neon'), 4))
        A('    } // verus!')
        A('  }')
    else:
        A('  }')
    A('  pub mod runtime {')
    A('    use vstd::prelude::*;')
    A('    use crate::*;')
    A('    use super::avx2;')
    A('    use super::sse42;')
    A('    use std::sync::atomic::{AtomicU8, Ordering};')
    rt_ext = dict(fn='external', kind='external', name='runtime-leaves', tags=[])
    A(get_item(rt, r'^static RUNTIME_FEATURE', 'semi'), rt_ext)
    for f in ('detect_runtime_feature', 'get_runtime_feature'):
        A(get_fn(rt, f), rt_ext)
    A('    verus! {')
    for rx in (r'^const AVX2', r'^const SSE42', r'^const NOP'):
        A(get_item(rt, rx, 'semi'), rt_ext)
    out.extend(indent(read_spec('runtime_leaves.rs'), 4))
    out.extend(indent(fns_in('simd::runtime'), 4))
    A('    } // verus!')
    A('  }')
    for modname in ('sse42_compile_time', 'avx2_compile_time'):
        A('  pub mod %s {' % modname)
        A('    use vstd::prelude::*;')
        A('    use crate::*;')
        A('    verus! {')
        out.extend(indent(fns_in('simd::' + modname), 4))
        A('    } // verus!')
        A('  }')
    A('  pub use self::runtime::*;')
    A('}')
    A('verus! {')
    A('global size_of usize == 8;')
    tmeta = dict(fn='types', kind='types', name='types', tags=[])
    A(type_item(lib, r'^pub enum Error\b'), tmeta)
    A(type_item(lib, r'^pub struct InvalidChunkSize'.replace('struct InvalidChunkSize', 'struct InvalidChunkSize')) if False else
      '#[derive(PartialEq, Eq)]\npub struct InvalidChunkSize;', tmeta)
    A('pub type Result<T> = result::Result<Status<T>, Error>;', tmeta)
    A(type_item(lib, r'^pub enum Status<T>'), tmeta)
    # D3: field / type visibility widened to `pub` in the copies of the two option records (no run-time meaning), so that
    # the contracts of PUBLIC entry points may mention the options
    pubfields = lambda t: re.sub(r'^(\s+)(\w+: bool,)', r'\1pub \2', t, flags=re.M)
    A(pubfields(type_item(lib, r'^pub struct ParserConfig\b')), tmeta)
    A(type_item(lib, r'^pub struct Request<'), tmeta)
    A(type_item(lib, r'^pub struct Response<'), tmeta)
    A(type_item(lib, r'^pub struct Header<'), tmeta)
    A(re.sub(r'^struct HeaderParserConfig', 'pub struct HeaderParserConfig', pubfields(type_item(lib, r'^struct HeaderParserConfig\b')), flags=re.M), tmeta)
    # hoisted fn-local items (R4 / R6)
    for key, h in hoisted:
        if h[0] == 'const':
            _, name, ty, init = h
            A(hoisted_const(name, ty, init), dict(fn=key, kind='hoisted', name=name, tags=[]))
        elif h[1].startswith('struct'):
            A(re.sub(r'^[ \t]+', '', h[2], flags=re.M), dict(fn=key, kind='hoisted', name=h[1], tags=[]))
    for name in ('classes.rs', 'bytes.rs', 'shims.rs', 'startline.rs', 'chunk.rs', 'headers.rs', 'lemmas.rs'):
        if os.path.exists(os.path.join(VERIF, 'spec', name)):
            out.extend(read_spec(name))
    if os.environ.get('VERIF_SPEC_EXTRA'):
        # development aid: an extra lemma file under work (never set by the registered checks)
        for l in open(os.environ['VERIF_SPEC_EXTRA']).read().split('\n'):
            out.add(l, None)
    # functions under contract from lib.rs, grouped by impl scope
    scopes = {}
    for sp in specs:
        if sp.key in fn_outs and sp.module == 'crate':
            scopes.setdefault(sp.scope, []).append(sp)
    for scope, sps in scopes.items():
        if scope:
            hdr = re.search(scope, lib, re.M)
            A(lib[hdr.start():lib.index('{', hdr.start()) + 1])
        for sp in sps:
            out.extend(indent(fn_outs[sp.key][1], 4 if False else 0))
            A('')
        if scope:
            A('}')
    A('} // verus!')
    for key, h in hoisted:
        if h[0] == 'item' and h[1].startswith('impl'):
            # R6: the Drop impl stays visible to Verus (it havocs what the guard borrows) but its body is not verified
            A('verus! {')
            t = re.sub(r'^[ \t]{4}', '', h[2], flags=re.M)
            t = t.replace('fn drop(&mut self) {', 'fn drop(&mut self)\n        opens_invariants none\n        no_unwind\n    {')
            t = t.replace('fn drop(&mut self)', '#[verifier::external_body]\n    fn drop(&mut self)')
            A(t, dict(fn=key, kind='hoisted', name=h[1], tags=[]))
            A('} // verus!')
    A('fn main() {}')
    open(out_path, 'w').write(out.text())
    json.dump(dict(regions=out.linemap(), warnings=warnings, notices=NOTICES, rewrites=REWRITE_LOG,
                   functions=[dict(key=sp.key, name=sp.name, source=sp.source, scope=sp.scope, mode=sp.mode, tags=sp.tags,
                                   trusted=sp.trusted, demoted=bool(sp.extra.get('demoted'))) for sp in specs if sp.key in fn_outs]),
              open(re.sub(r'\.rs$', '', out_path) + '.map.json', 'w'), indent=0)
    return warnings


CONST_ENSURES = {
    # R4: values of hoisted fn-local consts, stated as contracts (each is a concrete Kani leaf, see contracts/leaves.json)
    'H10': 'H10 == le64(seq![0x48u8, 0x54, 0x54, 0x50, 0x2f, 0x31, 0x2e, 0x30])',
    'H11': 'H11 == le64(seq![0x48u8, 0x54, 0x54, 0x50, 0x2f, 0x31, 0x2e, 0x31])',
    'GET': 'GET@ == seq![0x47u8, 0x45, 0x54, 0x20]',
    'POST': 'POST@ == seq![0x50u8, 0x4f, 0x53, 0x54]',
    'RADIX': 'RADIX == 16',
}


def _lit_bytes(lit):
    """bytes of a Rust byte-string literal body (no raw strings)"""
    out, i = [], 0
    while i < len(lit):
        c = lit[i]
        if c == '\\':
            n = lit[i + 1]
            if n == 'x':
                out.append(int(lit[i + 2:i + 4], 16)); i += 4; continue
            out.append({'n': 10, 'r': 13, 't': 9, '0': 0, '\\': 92, '"': 34, "'": 39}[n]); i += 2; continue
        out.append(ord(c)); i += 1
    return out


def hoisted_const(name, ty, init):
    if re.fullmatch(r'[0-9][0-9a-fA-Fx_]*', init):
        return 'pub const %s: %s = %s;' % (name, ty, init)
    # value contracts derived from the literal itself (the same bytes go into the generated Kani leaf leaf_const_values)
    m = re.fullmatch(r'\*b"((?:[^"\\]|\\.)*)"', init)
    if m:
        bs = _lit_bytes(m.group(1))
        return '#[verifier::external_body]\npub exec const %s: %s ensures %s@ == seq![%s] { %s }' % (
            name, ty, name, ', '.join(('0x%02xu8' % b) if k == 0 else ('0x%02x' % b) for k, b in enumerate(bs)), init)
    m = re.fullmatch(r'u64(?:::|_)from_ne_bytes\(\*b"((?:[^"\\]|\\.)*)"\)', init)
    if m:
        bs = _lit_bytes(m.group(1))
        return '#[verifier::external_body]\npub exec const %s: %s ensures %s == le64(seq![%s]) { %s }' % (
            name, ty, name, ', '.join(('0x%02xu8' % b) if k == 0 else ('0x%02x' % b) for k, b in enumerate(bs)), init)
    # `&[u8]` / `&[u8; N]` byte-string constants (R4): value contract derived from the literal
    m = re.fullmatch(r'b"((?:[^"\\]|\\.)*)"', init)
    if m and re.fullmatch(r"&\s*(?:'static\s+)?\[\s*u8\s*(?:;\s*\w+\s*)?\]", ty):
        bs = _lit_bytes(m.group(1))
        return '#[verifier::external_body]\npub exec const %s: %s ensures %s@ == seq![%s] { %s }' % (
            name, ty, name, ', '.join(('0x%02xu8' % b) if k == 0 else ('0x%02x' % b) for k, b in enumerate(bs)), init)
    # byte / char literals and simple integer expressions of literals
    if re.fullmatch(r"b'(?:\\.|[^'\\])'", init) or re.fullmatch(r'[0-9a-fA-Fx_+\-*/()<>| &usizeu64u8u1632]+', init):
        return 'pub const %s: %s = %s;' % (name, ty, init)
    if name not in CONST_ENSURES:
        raise AnchorLost('fn-local const %s has no stated value contract' % name)
    return '#[verifier::external_body]\npub exec const %s: %s ensures %s { %s }' % (name, ty, CONST_ENSURES[name], init)


if __name__ == '__main__':
    outp = sys.argv[1] if len(sys.argv) > 1 else os.path.join(VERIF, 'gen', 'httparse_verus.rs')
    os.makedirs(os.path.dirname(outp), exist_ok=True)
    only = set(sys.argv[2:]) or None
    try:
        w = assemble(outp, only)
    except AnchorLost as e:
        print('ANCHOR-LOST: %s' % e)
        sys.exit(2)
    for x in w:
        print('WARNING:', x)
    print('wrote', outp)
